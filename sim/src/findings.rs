//! Known findings: genuine defects of MathCAT that are recorded rather than repaired. They are matched by
//! signature (property, violation class, regex on the signature); the file is read once and never written.
use std::sync::OnceLock;

use regex::Regex;
use serde::Deserialize;

use crate::trace::Violation;

#[derive(Deserialize, Clone, Debug)]
pub struct Finding {
    pub id: String,
    /// "known" (suppresses, prints KNOWN-FINDING) or "fixed" (documentation only: suppresses nothing)
    pub status: String,
    pub properties: Vec<String>,
    pub class: String,
    pub sig_regex: String,
    pub what: String,
    #[serde(default)]
    pub commit: String,
}

#[derive(Deserialize, Clone, Debug, Default)]
pub struct FindingsFile {
    pub findings: Vec<Finding>,
}

struct Compiled {
    f: Finding,
    re: Regex,
}

static FINDINGS: OnceLock<Vec<Compiled>> = OnceLock::new();

pub fn load(path: &str) -> Result<(), String> {
    let text = match std::fs::read_to_string(path) {
        Ok(t) => t,
        Err(e) => return Err(format!("cannot read {}: {}", path, e)),
    };
    let ff: FindingsFile = serde_json::from_str(&text).map_err(|e| format!("{}: {}", path, e))?;
    let mut v = Vec::new();
    for f in ff.findings {
        let re = Regex::new(&f.sig_regex).map_err(|e| format!("{}: bad regex in {}: {}", path, f.id, e))?;
        v.push(Compiled { f, re });
    }
    let _ = FINDINGS.set(v);
    Ok(())
}

pub fn match_known(v: &Violation) -> Option<Finding> {
    let all = FINDINGS.get()?;
    for c in all {
        if c.f.status == "known" && c.f.class == v.class && c.f.properties.iter().any(|p| p == &v.property || p == "*") && c.re.is_match(&v.sig) {
            return Some(c.f.clone());
        }
    }
    None
}

pub fn is_known(v: &Violation) -> bool {
    match_known(v).is_some()
}

pub fn all() -> Vec<Finding> {
    FINDINGS.get().map(|v| v.iter().map(|c| c.f.clone()).collect()).unwrap_or_default()
}
