//! mcsim — deterministic simulation with fault injection for MathCAT.
//!   mcsim check <PROP> <quick|thorough>     supervisor: fan out to worker processes, write evidence, exit 0/1/2
//!   mcsim worker <PROP> <tier> <w> <n> [start]   one worker process (internal)
//!   mcsim replay <file>                      re-execute a replay file; must reproduce its violation
//!   mcsim run-trace <file> [--log]           execute a bare trace (debugging)
//!   mcsim show <PROP> <tier> <unit>          print the trace of one unit of a plan
//!   mcsim selftest [n]                       determinism self-test
//!   mcsim gen <seed> <ids>                   print expression <seed> of the generator (ids: 0 none, 1 some, 2 all)
//!   mcsim try <mathml>...                    (debugging) set_mathml, speech, braille of each argument in one fresh session
//!   mcsim genscan <from> <to>                (debugging) every API on generated expressions; distinct panic sites
mod mml;
mod exec;
mod faults;
mod findings;
mod plan;
mod pools;
mod props;
mod rng;
mod shrink;
mod simfs;
mod supervisor;
mod trace;
mod world;

use std::path::PathBuf;
use std::sync::Arc;

pub fn verif_dir() -> PathBuf {
    PathBuf::from(std::env::var("VERIF_DIR").unwrap_or_else(|_| "/verif".to_string()))
}
pub fn repo_dir() -> PathBuf {
    PathBuf::from(std::env::var("MCSIM_REPO").unwrap_or_else(|_| "/repo".to_string()))
}
pub fn verif_seed() -> u64 {
    std::env::var("VERIF_SEED").ok().and_then(|s| s.trim().parse::<u64>().ok()).unwrap_or(1)
}

pub fn make_ctx(keep_log: bool) -> Result<Arc<exec::ExecCtx>, String> {
    let rules = repo_dir().join("Rules");
    let base = simfs::load_base(&rules).map_err(|e| format!("cannot read {}: {}", rules.display(), e))?;
    if base.files.is_empty() {
        return Err(format!("{} is empty", rules.display()));
    }
    let zipped = supervisor::load_zipped_base();
    Ok(Arc::new(exec::ExecCtx { base: Arc::new(base), zipped_base: zipped.map(Arc::new), keep_log }))
}

fn main() {
    let args: Vec<String> = std::env::args().collect();
    if args.len() < 2 {
        eprintln!("usage: mcsim check|worker|replay|run-trace|show|selftest ...");
        std::process::exit(2);
    }
    exec::install_panic_hook();
    if let Err(e) = findings::load(&verif_dir().join("known_findings.json").to_string_lossy()) {
        eprintln!("HARNESS-ERROR: {}", e);
        std::process::exit(2);
    }
    let code = match args[1].as_str() {
        "check" if args.len() >= 4 => supervisor::check(&args[2], &args[3]),
        "worker" if args.len() >= 6 => supervisor::worker(&args[2], &args[3], args[4].parse().unwrap_or(0), args[5].parse().unwrap_or(1), args.get(6).and_then(|s| s.parse().ok()).unwrap_or(0)),
        "replay" if args.len() >= 3 => supervisor::replay(&args[2]),
        "run-trace" if args.len() >= 3 => supervisor::run_trace(&args[2], args.iter().any(|a| a == "--log")),
        "show" if args.len() >= 5 => supervisor::show(&args[2], &args[3], args[4].parse().unwrap_or(0)),
        "gen" if args.len() >= 4 => {
            println!("{}", mml::generate(args[2].parse().unwrap_or(0), mml::id_mode(args[3].parse().unwrap_or(0))));
            0
        }
        "try" if args.len() >= 3 => exec::try_exprs(&args[2..]),
        "solo" => exec::solo_child(),
        "genscan" if args.len() >= 4 => exec::genscan(args[2].parse().unwrap_or(0), args[3].parse().unwrap_or(1000)),
        "selftest" => supervisor::selftest(args.get(2).and_then(|s| s.parse().ok()).unwrap_or(200)),
        _ => {
            eprintln!("bad arguments");
            2
        }
    };
    std::process::exit(code);
}
