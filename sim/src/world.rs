//! One simulated world: file system, wall clock, library randomness, event log, baton scheduler.
//! `SimEnv` is what a MathCAT session thread sees through `libmathcat::verif_hooks`.
use std::collections::{BTreeMap, HashMap};
use std::io;
use std::path::{Path, PathBuf};
use std::sync::{Arc, Condvar, Mutex, MutexGuard};
use std::time::{Duration, SystemTime};

use libmathcat::verif_hooks::VerifEnv;

use crate::faults;
use crate::rng::{Fnv, Rng};
use crate::simfs::*;
use crate::trace::*;

#[derive(Clone, Debug, PartialEq, Eq, Hash, PartialOrd, Ord)]
pub enum SeamKind {
    IsFile,
    IsDir,
    ReadDir,
    Canon,
    Read,
    Stat,
    Write,
    Mkdir,
    ConfigDir,
    Now,
    Rand,
}

#[derive(Clone, Debug)]
pub struct SeamRec {
    pub kind: SeamKind,
    pub path: PathBuf,
    pub ok: bool,
    /// the bytes handed out carried this fault / the path asked for was removed by this fault
    pub fault: Option<FaultTag>,
    pub content_id: u64,
    pub injected: Option<InjectKind>,
}

#[derive(Default, Clone, Debug)]
pub struct CallCtx {
    pub step: usize,
    pub sub: usize,
    pub reads: usize,
    pub stats: usize,
    pub sticky: Vec<(PathBuf, InjectKind)>,
    pub seam: Vec<SeamRec>,
}

enum Saved {
    File(Option<FileEntry>),
    Dir(Vec<PathBuf>, Vec<(PathBuf, FileEntry)>, Option<FileEntry>),
}

#[derive(Default, Clone, Debug)]
pub struct WorldStats {
    pub seam_calls: u64,
    pub seam_by_kind: BTreeMap<String, u64>,
    pub faults_fired: BTreeMap<String, u64>,
    pub faults_consumed: BTreeMap<String, u64>,
    pub injections_fired: BTreeMap<String, u64>,
    pub env_events: BTreeMap<String, u64>,
    pub sim_time_ms: u64,
    pub switches: u64,
    pub yield_points: u64,
}

pub struct Inner {
    pub fs: SimFs,
    pub now_ms: u64,
    lib_rand: Rng,
    lib_rand_last: u64,
    lib_rand_repeat: f64,
    pub seq: u64,
    pub log_hash: Fnv,
    pub log: Option<Vec<String>>,
    // scheduler
    pub n_sessions: usize,
    pub current: usize,
    pub finished: Vec<bool>,
    sched: Option<(Rng, f64)>,
    pub interleave_hash: Fnv,
    // per-session call context
    pub calls: Vec<CallCtx>,
    pub injections: Vec<Injection>,
    saved: HashMap<PathBuf, Saved>,
    /// Some(n): n more data writes succeed, then ENOSPC
    pub disk_budget: Option<u64>,
    pub stats: WorldStats,
    pub user_config_dir: bool,
}

pub struct World {
    pub inner: Mutex<Inner>,
    pub cv: Condvar,
    pub base: Arc<BaseTree>,
}

pub fn user_prefs_path() -> PathBuf {
    PathBuf::from(CONFIG_DIR).join("MathCAT/prefs.yaml")
}

impl World {
    pub fn new(base: Arc<BaseTree>, cfg: &WorldCfg, n_sessions: usize, injections: Vec<Injection>, sched: &Option<Sched>, keep_log: bool) -> Arc<World> {
        let mut fs = SimFs::new(&base, cfg.start_ms.saturating_sub(86_400_000)); // installed a day before
        fs.dir_order = cfg.dir_order;
        if cfg.user_config_dir {
            fs.create_dir_all(&PathBuf::from(CONFIG_DIR).join("MathCAT")).unwrap();
        }
        Self::from_fs(base, fs, cfg, n_sessions, injections, sched, keep_log)
    }

    pub fn from_fs(base: Arc<BaseTree>, fs: SimFs, cfg: &WorldCfg, n_sessions: usize, injections: Vec<Injection>, sched: &Option<Sched>, keep_log: bool) -> Arc<World> {
        let inner = Inner {
            fs,
            now_ms: cfg.start_ms,
            lib_rand: Rng::stream(cfg.lib_rand_seed, "lib-rand"),
            lib_rand_last: 0x1234_5678_9abc_def0,
            lib_rand_repeat: cfg.lib_rand_repeat,
            seq: 0,
            log_hash: Fnv::new(),
            log: if keep_log { Some(Vec::new()) } else { None },
            n_sessions,
            current: 0,
            finished: vec![false; n_sessions],
            sched: sched.as_ref().map(|s| (Rng::stream(s.seed, "schedule"), s.p_switch_seam)),
            interleave_hash: Fnv::new(),
            calls: vec![CallCtx::default(); n_sessions],
            injections,
            saved: HashMap::new(),
            disk_budget: None,
            stats: WorldStats::default(),
            user_config_dir: cfg.user_config_dir,
        };
        Arc::new(World { inner: Mutex::new(inner), cv: Condvar::new(), base })
    }

    pub fn lock(&self) -> MutexGuard<'_, Inner> {
        match self.inner.lock() {
            Ok(g) => g,
            Err(p) => p.into_inner(),
        }
    }

    /// Y1/Y2: possibly hand the baton to another session; returns when this session holds it again.
    pub fn yield_point<'a>(&'a self, mut g: MutexGuard<'a, Inner>, me: usize, at_api_boundary: bool) -> MutexGuard<'a, Inner> {
        if g.n_sessions <= 1 || g.sched.is_none() {
            return g;
        }
        g.stats.yield_points += 1;
        let others: Vec<usize> = (0..g.n_sessions).filter(|&s| s != me && !g.finished[s]).collect();
        if others.is_empty() {
            return g;
        }
        let (rng, p_seam) = g.sched.as_mut().unwrap();
        let p = if at_api_boundary { 0.5 } else { *p_seam };
        if !rng.chance(p) {
            return g;
        }
        let next = others[rng.below(others.len())];
        g.current = next;
        g.stats.switches += 1;
        let seq = g.seq;
        g.interleave_hash.u64(((me as u64) << 32) | next as u64);
        g.interleave_hash.u64(if at_api_boundary { 1 } else { 2 });
        let _ = seq;
        self.cv.notify_all();
        while g.current != me {
            g = match self.cv.wait(g) {
                Ok(g) => g,
                Err(p) => p.into_inner(),
            };
        }
        g
    }

    pub fn wait_for_turn(&self, me: usize) {
        let mut g = self.lock();
        while g.current != me {
            g = match self.cv.wait(g) {
                Ok(g) => g,
                Err(p) => p.into_inner(),
            };
        }
    }

    pub fn finish(&self, me: usize) {
        let mut g = self.lock();
        g.finished[me] = true;
        let others: Vec<usize> = (0..g.n_sessions).filter(|&s| !g.finished[s]).collect();
        if !others.is_empty() {
            let next = match g.sched.as_mut() {
                Some((rng, _)) => others[rng.below(others.len())],
                None => others[0],
            };
            g.current = next;
        }
        self.cv.notify_all();
    }
}

impl Inner {
    pub fn event(&mut self, session: usize, text: &str) {
        self.seq += 1;
        self.log_hash.u64(self.seq);
        self.log_hash.u64(session as u64);
        self.log_hash.str(text);
        if let Some(log) = self.log.as_mut() {
            log.push(format!("{:06} s{} {}", self.seq, session, text));
        }
    }

    pub fn begin_call(&mut self, session: usize, step: usize, sub: usize) {
        let c = &mut self.calls[session];
        c.step = step;
        c.sub = sub;
        c.reads = 0;
        c.stats = 0;
        c.sticky.clear();
        c.seam.clear();
    }

    pub fn take_seam(&mut self, session: usize) -> Vec<SeamRec> {
        std::mem::take(&mut self.calls[session].seam)
    }

    fn seam(&mut self, session: usize, rec: SeamRec) {
        self.stats.seam_calls += 1;
        *self.stats.seam_by_kind.entry(format!("{:?}", rec.kind)).or_insert(0) += 1;
        if let Some(f) = &rec.fault {
            *self.stats.faults_consumed.entry(f.kind.clone()).or_insert(0) += 1;
        }
        if let Some(i) = &rec.injected {
            *self.stats.injections_fired.entry(format!("{:?}", i)).or_insert(0) += 1;
        }
        let text = format!(
            "seam {:?} {} ok={} cid={:x}{}{}",
            rec.kind,
            rec.path.display(),
            rec.ok,
            rec.content_id,
            rec.fault.as_ref().map(|f| format!(" fault={}", f.kind)).unwrap_or_default(),
            rec.injected.as_ref().map(|i| format!(" inj={:?}", i)).unwrap_or_default()
        );
        self.event(session, &text);
        if session < self.calls.len() {
            self.calls[session].seam.push(rec);
        }
    }

    fn injection_for(&mut self, session: usize, is_stat: bool, path: &Path) -> Option<InjectKind> {
        let c = &self.calls[session];
        for (p, k) in &c.sticky {
            let stat_kind = matches!(k, InjectKind::MtimeUnavailable);
            if p == path && stat_kind == is_stat {
                return Some(k.clone());
            }
        }
        let nth = if is_stat { c.stats } else { c.reads };
        let step = c.step;
        let sub = c.sub;
        let mut found = None;
        for inj in &self.injections {
            let stat_kind = matches!(inj.kind, InjectKind::MtimeUnavailable);
            if inj.session == session && inj.step == step && inj.sub == sub && inj.nth == nth && stat_kind == is_stat {
                found = Some((inj.kind.clone(), inj.sticky));
                break;
            }
        }
        if let Some((k, sticky)) = found {
            if sticky {
                self.calls[session].sticky.push((path.to_path_buf(), k.clone()));
            }
            return Some(k);
        }
        None
    }

    pub fn advance_clock(&mut self, ms: u64) {
        self.now_ms += ms;
        self.stats.sim_time_ms += ms;
    }

    fn save_file(&mut self, p: &Path) {
        if !self.saved.contains_key(p) {
            let cur = self.fs.get(p).cloned();
            self.saved.insert(p.to_path_buf(), Saved::File(cur));
        }
    }

    /// Apply one environment event. Every write advances the clock by >= 1 ms first, so that its stamp is
    /// strictly later than any stamp a session may have recorded before (the properties presuppose that a
    /// change moves the mtime forward; equal-stamp and backward-stamp writes are the diagnostic clock-fault mode).
    pub fn apply_env(&mut self, session: usize, ev: &EnvEvent) -> String {
        let name = match ev {
            EnvEvent::Clock { .. } => "clock",
            EnvEvent::Fault { .. } => "fault",
            EnvEvent::Repair { .. } => "repair",
            EnvEvent::RepairAll => "repair-all",
            EnvEvent::Touch { .. } => "touch",
            EnvEvent::WriteUserPrefs { .. } => "write-user-prefs",
            EnvEvent::RemoveUserPrefs => "remove-user-prefs",
            EnvEvent::EditSysPref { .. } => "edit-sys-pref",
            EnvEvent::DiskFull { .. } => "disk-full",
            EnvEvent::DiskFree => "disk-free",
        };
        *self.stats.env_events.entry(name.to_string()).or_insert(0) += 1;
        let outcome = match ev {
            EnvEvent::Clock { ms } => {
                self.advance_clock(*ms);
                format!("now={}", self.now_ms)
            }
            EnvEvent::Fault { path, kind } => {
                self.advance_clock(1);
                let p = PathBuf::from(path);
                let kname = faults::kind_name(kind);
                let now = self.now_ms;
                match kind {
                    FaultKind::DirMissing | FaultKind::DirIsFile => {
                        if !self.fs.is_dir(&p) {
                            "not-applicable".to_string()
                        } else {
                            let tag = FaultTag { kind: kname.clone(), class: FaultClass::MustErr };
                            let (dirs, files) = self.fs.remove_dir_all(&p, Some(tag.clone()));
                            if !self.saved.contains_key(&p) {
                                self.saved.insert(p.clone(), Saved::Dir(dirs, files, None));
                            }
                            if matches!(kind, FaultKind::DirIsFile) {
                                let _ = self.fs.write(&p, Arc::from(b"not a directory\n".to_vec().into_boxed_slice()), now, Some(tag));
                            }
                            *self.stats.faults_fired.entry(kname).or_insert(0) += 1;
                            "applied".to_string()
                        }
                    }
                    FaultKind::Deleted => {
                        if self.fs.is_file(&p) {
                            self.save_file(&p);
                            self.fs.remove_file(&p, Some(FaultTag { kind: kname.clone(), class: FaultClass::MustErr }));
                            *self.stats.faults_fired.entry(kname).or_insert(0) += 1;
                            "applied".to_string()
                        } else {
                            "not-applicable".to_string()
                        }
                    }
                    _ => {
                        // content faults are always derived from the pristine bytes of the file
                        let pristine = match self.saved.get(&p) {
                            Some(Saved::File(Some(e))) => Some(e.bytes.clone()),
                            Some(_) => None,
                            None => self.fs.get(&p).map(|e| e.bytes.clone()),
                        };
                        match pristine.and_then(|b| faults::mutate(kind, &b, path).map(|m| (b, m))) {
                            None => "not-applicable".to_string(),
                            Some((_b, (bytes, class))) => {
                                self.save_file(&p);
                                let cls = format!("applied:{:?}", class);
                                let _ = self.fs.write(&p, Arc::from(bytes.into_boxed_slice()), now, Some(FaultTag { kind: kname.clone(), class }));
                                *self.stats.faults_fired.entry(kname).or_insert(0) += 1;
                                cls
                            }
                        }
                    }
                }
            }
            EnvEvent::Repair { path, keep_mtime } => {
                self.advance_clock(1);
                let p = PathBuf::from(path);
                if *keep_mtime {
                    *self.stats.env_events.entry("repair-keeping-old-mtime".to_string()).or_insert(0) += 1;
                }
                self.repair_one(&p, *keep_mtime)
            }
            EnvEvent::RepairAll => {
                self.advance_clock(1);
                let mut keys: Vec<PathBuf> = self.saved.keys().cloned().collect();
                keys.sort();
                let mut n = 0;
                for k in keys {
                    self.repair_one(&k, false);
                    n += 1;
                }
                format!("repaired={}", n)
            }
            EnvEvent::DiskFull { after_writes } => {
                self.disk_budget = Some(*after_writes);
                "applied".to_string()
            }
            EnvEvent::DiskFree => {
                self.disk_budget = None;
                "applied".to_string()
            }
            EnvEvent::Touch { path } => {
                self.advance_clock(1);
                let now = self.now_ms;
                if self.fs.touch(Path::new(path), now) {
                    "applied".to_string()
                } else {
                    "not-applicable".to_string()
                }
            }
            EnvEvent::WriteUserPrefs { content } => {
                self.advance_clock(1);
                let now = self.now_ms;
                let p = user_prefs_path();
                match self.fs.write(&p, Arc::from(content.as_bytes().to_vec().into_boxed_slice()), now, None) {
                    Ok(()) => "applied".to_string(),
                    Err(_) => "not-applicable".to_string(),
                }
            }
            EnvEvent::RemoveUserPrefs => {
                self.advance_clock(1);
                let p = user_prefs_path();
                if self.fs.remove_file(&p, None).is_some() {
                    self.fs.mark_pristine(&p);
                    "applied".to_string()
                } else {
                    "not-applicable".to_string()
                }
            }
            EnvEvent::EditSysPref { mount, name, value } => {
                self.advance_clock(1);
                let now = self.now_ms;
                let p = PathBuf::from(mount).join("prefs.yaml");
                match self.fs.get(&p).cloned() {
                    None => "not-applicable".to_string(),
                    Some(e) => {
                        let text = String::from_utf8_lossy(&e.bytes).to_string();
                        let mut out = String::new();
                        let mut done = false;
                        for line in text.split_inclusive('\n') {
                            let t = line.trim_start();
                            if !done && t.starts_with(&format!("{}:", name)) {
                                let indent = &line[..line.len() - t.len()];
                                out.push_str(&format!("{}{}: {}\n", indent, name, value));
                                done = true;
                            } else {
                                out.push_str(line);
                            }
                        }
                        if done {
                            let _ = self.fs.write(&p, Arc::from(out.into_bytes().into_boxed_slice()), now, None);
                            "applied".to_string()
                        } else {
                            "not-applicable".to_string()
                        }
                    }
                }
            }
        };
        self.event(session, &format!("env {:?} -> {}", ev, outcome));
        outcome
    }

    fn repair_one(&mut self, p: &Path, keep_mtime: bool) -> String {
        let now = self.now_ms;
        match self.saved.remove(p) {
            None => "nothing-to-repair".to_string(),
            Some(Saved::File(Some(e))) => {
                // keep_mtime: the backup's own (older) time stamp comes back with the content
                let stamp = if keep_mtime { e.mtime_ms } else { now };
                let _ = self.fs.write(p, e.bytes.clone(), stamp, None);
                self.fs.mark_pristine(p);
                "repaired".to_string()
            }
            Some(Saved::File(None)) => {
                self.fs.remove_file(p, None);
                self.fs.mark_pristine(p);
                "repaired".to_string()
            }
            Some(Saved::Dir(dirs, files, _)) => {
                self.fs.remove_file(p, None); // "directory replaced by a file"
                self.fs.mark_pristine(p);
                self.fs.restore(&dirs, &files, now);
                "repaired".to_string()
            }
        }
    }

    pub fn outstanding_faults(&self) -> usize {
        self.saved.len()
    }
}

/// What a session thread sees. `session` indexes the call contexts; reference sessions use their own World.
pub struct SimEnv {
    pub world: Arc<World>,
    pub session: usize,
}

impl SimEnv {
    fn with<R>(&self, f: impl FnOnce(&mut Inner) -> R) -> R {
        let mut g = self.world.lock();
        let r = f(&mut g);
        let _g = self.world.yield_point(g, self.session, false);
        r
    }
}

impl VerifEnv for SimEnv {
    fn is_file(&self, path: &Path) -> bool {
        self.with(|w| {
            let ok = w.fs.is_file(path);
            let fault = if ok { None } else { w.fs.removed_fault(path) };
            w.seam(self.session, SeamRec { kind: SeamKind::IsFile, path: path.to_path_buf(), ok, fault: fault.map(|mut f| { f.class = FaultClass::MayLoad; f }), content_id: 0, injected: None });
            ok
        })
    }
    fn is_dir(&self, path: &Path) -> bool {
        self.with(|w| {
            let ok = w.fs.is_dir(path);
            let fault = if ok { None } else { w.fs.removed_fault(path) };
            w.seam(self.session, SeamRec { kind: SeamKind::IsDir, path: path.to_path_buf(), ok, fault: fault.map(|mut f| { f.class = FaultClass::MayLoad; f }), content_id: 0, injected: None });
            ok
        })
    }
    fn read_dir_names(&self, path: &Path) -> Option<Vec<String>> {
        self.with(|w| {
            let r = w.fs.read_dir_names(path);
            w.seam(self.session, SeamRec { kind: SeamKind::ReadDir, path: path.to_path_buf(), ok: r.is_some(), fault: None, content_id: 0, injected: None });
            r
        })
    }
    fn canonicalize(&self, path: &Path) -> io::Result<PathBuf> {
        self.with(|w| {
            let r = w.fs.canonicalize(path);
            let fault = if r.is_ok() { None } else { w.fs.removed_fault(path) };
            w.seam(self.session, SeamRec { kind: SeamKind::Canon, path: path.to_path_buf(), ok: r.is_ok(), fault, content_id: 0, injected: None });
            r
        })
    }
    fn read(&self, path: &Path) -> io::Result<Vec<u8>> {
        self.with(|w| {
            // a read that fails anyway (e.g. the probe for xx.zip in an unzipped deployment) is not a place for an
            // injected error: the library's behaviour would be the same, and counting it would raise false alarms
            if w.fs.read(path).is_err() {
                let err = w.fs.read(path).err().unwrap();
                let fault = w.fs.removed_fault(path);
                w.seam(self.session, SeamRec { kind: SeamKind::Read, path: path.to_path_buf(), ok: false, fault, content_id: 0, injected: None });
                return Err(err);
            }
            w.calls[self.session].reads += 1;
            if let Some(inj) = w.injection_for(self.session, false, path) {
                let err = match inj {
                    InjectKind::ReadEio => io::Error::new(io::ErrorKind::Other, "Input/output error (os error 5)"),
                    InjectKind::ReadEacces => io::Error::new(io::ErrorKind::PermissionDenied, "Permission denied (os error 13)"),
                    _ => io::Error::new(io::ErrorKind::NotFound, "No such file or directory (os error 2)"),
                };
                w.seam(self.session, SeamRec { kind: SeamKind::Read, path: path.to_path_buf(), ok: false, fault: None, content_id: 0, injected: Some(inj) });
                return Err(err);
            }
            match w.fs.read(path) {
                Ok(e) => {
                    w.seam(self.session, SeamRec { kind: SeamKind::Read, path: path.to_path_buf(), ok: true, fault: e.fault.clone(), content_id: e.content_id, injected: None });
                    Ok(e.bytes.to_vec())
                }
                Err(err) => {
                    let fault = w.fs.removed_fault(path);
                    w.seam(self.session, SeamRec { kind: SeamKind::Read, path: path.to_path_buf(), ok: false, fault, content_id: 0, injected: None });
                    Err(err)
                }
            }
        })
    }
    fn modified(&self, path: &Path) -> Option<SystemTime> {
        self.with(|w| {
            w.calls[self.session].stats += 1;
            if let Some(inj) = w.injection_for(self.session, true, path) {
                w.seam(self.session, SeamRec { kind: SeamKind::Stat, path: path.to_path_buf(), ok: false, fault: None, content_id: 0, injected: Some(inj) });
                return None;
            }
            let r = w.fs.modified(path);
            w.seam(self.session, SeamRec { kind: SeamKind::Stat, path: path.to_path_buf(), ok: r.is_some(), fault: None, content_id: r.unwrap_or(0), injected: None });
            r.map(|ms| SystemTime::UNIX_EPOCH + Duration::from_millis(ms))
        })
    }
    fn write_file(&self, path: &Path, bytes: &[u8]) -> io::Result<()> {
        // documented semantics of ZipArchive::extract: create/truncate the file, then copy the data -- not atomic.
        // Another session scheduled between the two steps sees an empty file.
        let truncated = self.with(|w| {
            let now = w.now_ms;
            let r = w.fs.write(path, Arc::from(Vec::new().into_boxed_slice()), now, None);
            w.seam(self.session, SeamRec { kind: SeamKind::Write, path: path.to_path_buf(), ok: r.is_ok(), fault: None, content_id: 0, injected: None });
            r
        });
        truncated?;
        self.with(|w| {
            let now = w.now_ms;
            if let Some(b) = w.disk_budget {
                if b == 0 {
                    *w.stats.faults_fired.entry("disk-full-write".to_string()).or_insert(0) += 1;
                    w.seam(self.session, SeamRec { kind: SeamKind::Write, path: path.to_path_buf(), ok: false, fault: None, content_id: 0, injected: None });
                    return Err(io::Error::new(io::ErrorKind::Other, "No space left on device (os error 28)"));
                }
                w.disk_budget = Some(b - 1);
            }
            let r = w.fs.write(path, Arc::from(bytes.to_vec().into_boxed_slice()), now, None);
            w.seam(self.session, SeamRec { kind: SeamKind::Write, path: path.to_path_buf(), ok: r.is_ok(), fault: None, content_id: crate::rng::fnv_bytes(bytes), injected: None });
            r
        })
    }
    fn create_dir_all(&self, path: &Path) -> io::Result<()> {
        self.with(|w| {
            let r = w.fs.create_dir_all(path);
            w.seam(self.session, SeamRec { kind: SeamKind::Mkdir, path: path.to_path_buf(), ok: r.is_ok(), fault: None, content_id: 0, injected: None });
            r
        })
    }
    fn config_dir(&self) -> Option<PathBuf> {
        self.with(|w| {
            let r = if w.user_config_dir { Some(PathBuf::from(CONFIG_DIR)) } else { None };
            w.seam(self.session, SeamRec { kind: SeamKind::ConfigDir, path: PathBuf::new(), ok: r.is_some(), fault: None, content_id: 0, injected: None });
            r
        })
    }
    fn now_ms(&self) -> u128 {
        self.with(|w| {
            let now = w.now_ms;
            w.seam(self.session, SeamRec { kind: SeamKind::Now, path: PathBuf::new(), ok: true, fault: None, content_id: now, injected: None });
            now as u128
        })
    }
    fn random_usize(&self) -> usize {
        self.with(|w| {
            let repeat = w.lib_rand_repeat;
            let v = if repeat > 0.0 && w.lib_rand.chance(repeat) {
                w.lib_rand_last
            } else {
                // never a tiny value: add_ids slices the last 4 base-36 digits (see DESIGN 2.2)
                w.lib_rand.next_u64() | (1 << 40)
            };
            w.lib_rand_last = v;
            w.seam(self.session, SeamRec { kind: SeamKind::Rand, path: PathBuf::new(), ok: true, fault: None, content_id: v, injected: None });
            v as usize
        })
    }
}
