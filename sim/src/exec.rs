//! Executes a trace: one fresh OS thread per session (fresh thread_locals = fresh MathCAT session),
//! API calls wrapped in catch_unwind, every call and seam event logged, property checkers run inline.
use std::cell::RefCell;
use std::collections::{BTreeMap, HashMap};
use std::panic::{catch_unwind, AssertUnwindSafe};
use std::sync::atomic::{AtomicU64, Ordering};
use std::sync::{Arc, Mutex, OnceLock};

use libmathcat::interface as mc;
use regex::Regex;
use serde::{Deserialize, Serialize};

use crate::pools;
use crate::props;
use crate::rng::{fnv_str, Fnv};
use crate::simfs::*;
use crate::trace::*;
use crate::world::*;

thread_local! {
    static LAST_PANIC: RefCell<Option<(String, String)>> = const { RefCell::new(None) };
}

/// wall-clock start (ms) of the API call currently executing in this process (0 = none): the watchdog's only input
pub static CALL_STARTED_MS: AtomicU64 = AtomicU64::new(0);
pub static CALL_DESC: OnceLock<Mutex<String>> = OnceLock::new();

pub fn install_panic_hook() {
    std::panic::set_hook(Box::new(|info| {
        let msg = if let Some(s) = info.payload().downcast_ref::<&str>() {
            s.to_string()
        } else if let Some(s) = info.payload().downcast_ref::<String>() {
            s.clone()
        } else {
            "<non-string panic payload>".to_string()
        };
        let loc = info.location().map(|l| format!("{}:{}", l.file(), l.line())).unwrap_or_default();
        LAST_PANIC.with(|p| *p.borrow_mut() = Some((msg, loc)));
    }));
}

fn real_now_ms() -> u64 {
    std::time::SystemTime::now().duration_since(std::time::UNIX_EPOCH).map(|d| d.as_millis() as u64).unwrap_or(1)
}

pub fn normalize_ids(s: &str) -> String {
    static RE: OnceLock<Regex> = OnceLock::new();
    let re = RE.get_or_init(|| Regex::new(r"M[0-9a-z]{7}-(\d+)").unwrap());
    re.replace_all(s, "M~-$1").to_string()
}

pub fn extract_ids(mathml: &str) -> Vec<String> {
    static RE: OnceLock<Regex> = OnceLock::new();
    let re = RE.get_or_init(|| Regex::new(r#"<[A-Za-z][^<>]*?\sid=(?:'([^']*)'|"([^"]*)")"#).unwrap());
    re.captures_iter(mathml).map(|c| c.get(1).or(c.get(2)).map(|m| m.as_str().to_string()).unwrap_or_default()).collect()
}

/// number of element start tags in a serialized MathML string
pub fn count_elements(mathml: &str) -> usize {
    static RE: OnceLock<Regex> = OnceLock::new();
    let re = RE.get_or_init(|| Regex::new(r"<[A-Za-z]").unwrap());
    re.find_iter(mathml).count()
}

fn err_to_string(e: &libmathcat::errors::Error) -> String {
    mc::errors_to_string(e)
}

fn wrap<T, F: FnOnce() -> libmathcat::errors::Result<T>, G: FnOnce(T) -> String>(f: F, g: G) -> Res {
    LAST_PANIC.with(|p| *p.borrow_mut() = None);
    CALL_STARTED_MS.store(real_now_ms(), Ordering::SeqCst);
    let r = catch_unwind(AssertUnwindSafe(f));
    CALL_STARTED_MS.store(0, Ordering::SeqCst);
    match r {
        Ok(Ok(v)) => Res::Ok(g(v)),
        Ok(Err(e)) => Res::Err(err_to_string(&e)),
        Err(_) => {
            let (m, l) = LAST_PANIC.with(|p| p.borrow_mut().take()).unwrap_or(("<unknown panic>".into(), "".into()));
            Res::Panic(m, l)
        }
    }
}

#[derive(Default, Clone, Debug, Serialize, Deserialize)]
pub struct RunStats {
    pub api_calls: u64,
    pub api_by_name: BTreeMap<String, u64>,
    pub api_ok: u64,
    pub api_err: u64,
    pub api_panic: u64,
    pub seam_calls: u64,
    pub seam_by_kind: BTreeMap<String, u64>,
    pub faults_fired: BTreeMap<String, u64>,
    pub faults_consumed: BTreeMap<String, u64>,
    pub injections_fired: BTreeMap<String, u64>,
    pub env_events: BTreeMap<String, u64>,
    pub sim_time_ms: u64,
    pub switches: u64,
    pub yield_points: u64,
    pub probes: BTreeMap<String, u64>,
    pub ref_sessions: u64,
    pub ref_memo_hits: u64,
    pub sessions: u64,
    pub checks: u64,
}

impl RunStats {
    pub fn merge(&mut self, o: &RunStats) {
        fn m(a: &mut BTreeMap<String, u64>, b: &BTreeMap<String, u64>) {
            for (k, v) in b {
                *a.entry(k.clone()).or_insert(0) += v;
            }
        }
        self.api_calls += o.api_calls;
        m(&mut self.api_by_name, &o.api_by_name);
        self.api_ok += o.api_ok;
        self.api_err += o.api_err;
        self.api_panic += o.api_panic;
        self.seam_calls += o.seam_calls;
        m(&mut self.seam_by_kind, &o.seam_by_kind);
        m(&mut self.faults_fired, &o.faults_fired);
        m(&mut self.faults_consumed, &o.faults_consumed);
        m(&mut self.injections_fired, &o.injections_fired);
        m(&mut self.env_events, &o.env_events);
        self.sim_time_ms += o.sim_time_ms;
        self.switches += o.switches;
        self.yield_points += o.yield_points;
        m(&mut self.probes, &o.probes);
        self.ref_sessions += o.ref_sessions;
        self.ref_memo_hits += o.ref_memo_hits;
        self.sessions += o.sessions;
        self.checks += o.checks;
    }
}

#[derive(Default, Clone, Debug)]
pub struct RunOutput {
    /// per session: the normalised result of every trace-step call, in program order
    pub observed: Vec<Vec<String>>,
    pub violations: Vec<Violation>,
    pub log_hash: u64,
    pub log: Option<Vec<String>>,
    pub stats: RunStats,
    pub state_hashes: Vec<u64>,
    pub interleave_hash: u64,
    pub notes: Vec<String>,
    /// a harness problem (not a property violation): the run must be reported with exit 2
    pub harness_error: Option<String>,
}

#[derive(Default)]
pub struct SessOut {
    pub observed: Vec<String>,
    pub violations: Vec<Violation>,
    pub stats: RunStats,
    pub state_hashes: Vec<u64>,
    pub notes: Vec<String>,
    pub harness_error: Option<String>,
}

pub struct ExecCtx {
    pub base: Arc<BaseTree>,
    pub zipped_base: Option<Arc<BaseTree>>,
    pub keep_log: bool,
}

/// One MathCAT session (runs on its own thread) plus what the harness tracks about it
pub struct Sess {
    pub world: Arc<World>,
    pub ctx: Arc<ExecCtx>,
    pub id: usize,
    pub property: String,
    pub step: usize,
    pub sub: usize,
    pub next_is_main: bool,
    /// the input string and the returned MathML of the last successful set_mathml
    pub cur_src: Option<String>,
    pub cur_mathml: Option<String>,
    pub cur_ids: Vec<String>,
    pub prev_ids: Vec<String>,
    pub last_seam: Vec<SeamRec>,
    pub rules_dir: Option<String>,
    pub out: SessOut,
    pub quiet_panics: bool,
}

impl Sess {
    pub fn violation(&mut self, class: &str, sig: String, detail: String) {
        let group = sig.clone();
        self.violation_g(class, sig, group, detail);
    }

    pub fn violation_g(&mut self, class: &str, sig: String, group: String, detail: String) {
        let v = Violation { property: self.property.clone(), class: class.to_string(), sig, group, detail, session: self.id, step: self.step };
        self.world.lock().event(self.id, &format!("VIOLATION {}", v.key()));
        self.out.violations.push(v);
    }

    pub fn probe(&mut self, name: &str) {
        *self.out.stats.probes.entry(name.to_string()).or_insert(0) += 1;
    }

    pub fn note(&mut self, s: String) {
        if self.out.notes.len() < 50 {
            self.out.notes.push(s);
        }
    }

    pub fn state_hash(&mut self, h: u64) {
        self.out.state_hashes.push(h);
    }

    pub fn resolve_expr(&self, e: &ExprRef) -> String {
        match e {
            ExprRef::Pool(i) => pools::VALID_EXPRS[i % pools::VALID_EXPRS.len()].to_string(),
            ExprRef::Bad(i) => pools::INVALID_EXPRS[i % pools::INVALID_EXPRS.len()].to_string(),
            ExprRef::Corpus(i) => {
                let c = pools::corpus();
                c[i % c.len()].to_string()
            }
            ExprRef::Feedback => self.cur_mathml.clone().unwrap_or_else(|| "<math><mi>x</mi></math>".to_string()),
            ExprRef::Lit(s) => s.clone(),
            ExprRef::Gen { seed, ids } => crate::mml::generate(*seed, crate::mml::id_mode(*ids)),
        }
    }

    pub fn resolve_id(&mut self, r: &IdRef) -> String {
        match r {
            IdRef::Empty => String::new(),
            IdRef::Nth(n) => {
                if self.cur_ids.is_empty() {
                    "no-such-id".to_string()
                } else {
                    self.cur_ids[n % self.cur_ids.len()].clone()
                }
            }
            IdRef::Stale(n) => {
                if self.prev_ids.is_empty() {
                    "stale-id".to_string()
                } else {
                    self.prev_ids[n % self.prev_ids.len()].clone()
                }
            }
            IdRef::Nav => match self.raw_call(&Op::NavId) {
                Res::Ok(s) => s.split('\t').next().unwrap_or("").to_string(),
                _ => "no-nav-id".to_string(),
            },
            IdRef::Lit(s) => s.clone(),
        }
    }

    pub fn resolve_pos(&mut self, p: &PosRef) -> usize {
        match p {
            PosRef::Abs(n) => *n,
            PosRef::LenPlus(d) | PosRef::Permille(d) => {
                let len = match self.raw_call(&Op::Braille(IdRef::Empty)) {
                    Res::Ok(s) => s.chars().count(),
                    _ => 0,
                };
                match p {
                    PosRef::LenPlus(_) => len + d,
                    _ => len * d / 1000,
                }
            }
        }
    }

    /// An API call made by a checker (not a trace step): same logging, same panic check, no checker callback
    pub fn call(&mut self, op: &Op) -> Res {
        self.raw_call(op)
    }

    pub fn raw_call(&mut self, op: &Op) -> Res {
        // sub-call numbering for in-call injections: 0 = the trace step's own call; k >= 1 = the k-th other call
        // made during the step (checker queries, nested argument resolution), in order
        let is_main = std::mem::take(&mut self.next_is_main);
        // resolve symbolic arguments first (may itself make nested calls)
        let resolved: Op = match op {
            Op::SetMathml(e) => Op::SetMathml(ExprRef::Lit(self.resolve_expr(e))),
            Op::Braille(r) => Op::Braille(IdRef::Lit(self.resolve_id(r))),
            Op::SetNavNode(r, o) => Op::SetNavNode(IdRef::Lit(self.resolve_id(r)), *o),
            Op::NodeFromPos(p) => Op::NodeFromPos(PosRef::Abs(self.resolve_pos(p))),
            o => o.clone(),
        };
        let desc = describe(&resolved);
        {
            let g = self.world.lock();
            let mut g = self.world.yield_point(g, self.id, true);
            let sub = if is_main {
                0
            } else {
                self.sub += 1;
                self.sub
            };
            g.begin_call(self.id, self.step, sub);
            g.event(self.id, &format!("call {}", desc));
        }
        if let Some(m) = CALL_DESC.get() {
            if let Ok(mut d) = m.lock() {
                *d = desc.clone();
            }
        }
        let res = dispatch(&resolved);
        let seam = {
            let mut g = self.world.lock();
            let r = normalize_ids(&res.short());
            g.event(self.id, &format!("ret {}", r));
            g.take_seam(self.id)
        };
        self.last_seam = seam;
        let st = &mut self.out.stats;
        st.api_calls += 1;
        *st.api_by_name.entry(resolved.name().to_string()).or_insert(0) += 1;
        match &res {
            Res::Ok(_) => st.api_ok += 1,
            Res::Err(_) => st.api_err += 1,
            Res::Panic(_, _) => st.api_panic += 1,
        }
        // track the current expression
        match (&resolved, &res) {
            (Op::SetMathml(ExprRef::Lit(src)), Res::Ok(out)) => {
                self.prev_ids = std::mem::take(&mut self.cur_ids);
                self.cur_ids = extract_ids(out);
                self.cur_mathml = Some(out.clone());
                self.cur_src = Some(src.clone());
            }
            (Op::SetRulesDir(d), Res::Ok(_)) => self.rules_dir = Some(d.clone()),
            _ => {}
        }
        if let Res::Panic(msg, loc) = &res {
            if !self.quiet_panics {
                let sig = format!("{} @ {} :: {}", panic_arg_class(&resolved), short_loc(loc), first_line(msg, 100));
                let group = format!("{} @ {} :: {}", resolved.name(), short_loc(loc), first_line(msg, 60));
                self.violation_g("panic", sig, group, format!("{} panicked: {} at {}", desc, msg, loc));
            }
        }
        res
    }

    /// read all known preference values (names from `names`), as (name, value) where Ok
    pub fn read_prefs(&mut self, names: &[String]) -> Vec<(String, String)> {
        let mut v = Vec::new();
        for n in names {
            if let Res::Ok(val) = self.raw_call(&Op::GetPref(n.clone())) {
                v.push((n.clone(), val));
            }
        }
        v
    }
}

pub fn first_line(s: &str, max: usize) -> String {
    let l = s.lines().next().unwrap_or("");
    l.chars().take(max).collect()
}

pub fn short_loc(loc: &str) -> String {
    // "/repo/src/prefs.rs:690" -> "prefs.rs"  (line numbers shift with unrelated edits; the file is stable enough)
    let file = loc.rsplit('/').next().unwrap_or(loc);
    file.split(':').next().unwrap_or(file).to_string()
}

/// argument class used in panic signatures (stable under shrinking, coarse enough to group one defect)
fn panic_arg_class(op: &Op) -> String {
    match op {
        Op::SetPref(n, v) => {
            let vc = if v.is_empty() {
                "<empty>"
            } else if v.eq_ignore_ascii_case("true") || v.eq_ignore_ascii_case("false") {
                "<bool>"
            } else if v.parse::<f64>().is_ok() {
                "<number>"
            } else {
                "<string>"
            };
            format!("set_preference({},{})", n, vc)
        }
        Op::GetPref(n) => format!("get_preference({})", n),
        o => o.name().to_string(),
    }
}

pub fn describe(op: &Op) -> String {
    match op {
        Op::SetRulesDir(d) => format!("set_rules_dir({:?})", d),
        Op::GetVersion => "get_version()".into(),
        Op::SetMathml(ExprRef::Lit(s)) => format!("set_mathml({:?})", s),
        Op::SetMathml(e) => format!("set_mathml({:?})", e),
        Op::Speech => "get_spoken_text()".into(),
        Op::Overview => "get_overview_text()".into(),
        Op::GetPref(n) => format!("get_preference({:?})", n),
        Op::SetPref(n, v) => format!("set_preference({:?},{:?})", n, v),
        Op::Braille(IdRef::Lit(s)) => format!("get_braille({:?})", normalize_ids(s)),
        Op::Braille(r) => format!("get_braille({:?})", r),
        Op::NavBraille => "get_navigation_braille()".into(),
        Op::Key { key, shift, ctrl, alt, meta } => format!("do_navigate_keypress({},{},{},{},{})", key, shift, ctrl, alt, meta),
        Op::Cmd(c) => format!("do_navigate_command({:?})", c),
        Op::SetNavNode(IdRef::Lit(s), o) => format!("set_navigation_node({:?},{})", normalize_ids(s), o),
        Op::SetNavNode(r, o) => format!("set_navigation_node({:?},{})", r, o),
        Op::NavMathml => "get_navigation_mathml()".into(),
        Op::NavId => "get_navigation_mathml_id()".into(),
        Op::BraillePos => "get_braille_position()".into(),
        Op::NodeFromPos(p) => format!("get_navigation_node_from_braille_position({:?})", p),
    }
}

fn dispatch(op: &Op) -> Res {
    match op {
        Op::SetRulesDir(d) => wrap(|| mc::set_rules_dir(d.clone()), |_| String::new()),
        Op::GetVersion => wrap(|| Ok(mc::get_version()), |s| s),
        Op::SetMathml(ExprRef::Lit(s)) => wrap(|| mc::set_mathml(s.clone()), |s| s),
        Op::SetMathml(_) => Res::Err("harness: unresolved expression".into()),
        Op::Speech => wrap(mc::get_spoken_text, |s| s),
        Op::Overview => wrap(mc::get_overview_text, |s| s),
        Op::GetPref(n) => wrap(|| mc::get_preference(n.clone()), |s| s),
        Op::SetPref(n, v) => wrap(|| mc::set_preference(n.clone(), v.clone()), |_| String::new()),
        Op::Braille(IdRef::Lit(s)) => wrap(|| mc::get_braille(s.clone()), |s| s),
        Op::Braille(_) => Res::Err("harness: unresolved id".into()),
        Op::NavBraille => wrap(mc::get_navigation_braille, |s| s),
        Op::Key { key, shift, ctrl, alt, meta } => wrap(|| mc::do_navigate_keypress(*key, *shift, *ctrl, *alt, *meta), |s| s),
        Op::Cmd(c) => wrap(|| mc::do_navigate_command(c.clone()), |s| s),
        Op::SetNavNode(IdRef::Lit(s), o) => wrap(|| mc::set_navigation_node(s.clone(), *o), |_| String::new()),
        Op::SetNavNode(_, _) => Res::Err("harness: unresolved id".into()),
        Op::NavMathml => wrap(mc::get_navigation_mathml, |(s, o)| format!("{}\t{}", s, o)),
        Op::NavId => wrap(mc::get_navigation_mathml_id, |(s, o)| format!("{}\t{}", s, o)),
        Op::BraillePos => wrap(mc::get_braille_position, |(a, b)| format!("{}\t{}", a, b)),
        Op::NodeFromPos(PosRef::Abs(p)) => wrap(|| mc::get_navigation_node_from_braille_position(*p), |(s, o)| format!("{}\t{}", s, o)),
        Op::NodeFromPos(_) => Res::Err("harness: unresolved position".into()),
    }
}

pub fn split_pair(s: &str) -> (String, usize) {
    let mut it = s.rsplitn(2, '\t');
    let b = it.next().unwrap_or("0").parse::<usize>().unwrap_or(0);
    let a = it.next().unwrap_or("").to_string();
    (a, b)
}

pub trait Checker {
    fn start(&mut self, _s: &mut Sess) {}
    fn before_step(&mut self, _s: &mut Sess, _step: &Step) {}
    fn after_call(&mut self, _s: &mut Sess, _op: &Op, _res: &Res) {}
    fn after_env(&mut self, _s: &mut Sess, _ev: &EnvEvent, _outcome: &str) {}
    fn on_check(&mut self, _s: &mut Sess, _kind: &str, _args: &serde_json::Value) {}
    fn finish(&mut self, _s: &mut Sess) {}
}

fn run_session(world: Arc<World>, ctx: Arc<ExecCtx>, trace: Arc<Trace>, id: usize) -> SessOut {
    let env: Arc<dyn libmathcat::verif_hooks::VerifEnv> = Arc::new(SimEnv { world: world.clone(), session: id });
    libmathcat::verif_hooks::install(Some(env));
    world.wait_for_turn(id);
    let mut sess = Sess {
        world: world.clone(),
        ctx,
        id,
        property: trace.property.clone(),
        step: 0,
        sub: 0,
        next_is_main: false,
        cur_src: None,
        cur_mathml: None,
        cur_ids: vec![],
        prev_ids: vec![],
        last_seam: vec![],
        rules_dir: None,
        out: SessOut::default(),
        quiet_panics: false,
    };
    sess.out.stats.sessions = 1;
    let mut checker = props::make_checker(&trace, id);
    let body = catch_unwind(AssertUnwindSafe(|| {
        checker.start(&mut sess);
        for (i, step) in trace.sessions[id].iter().enumerate() {
            sess.step = i;
            sess.sub = 0;
            checker.before_step(&mut sess, step);
            match step {
                Step::Call(op) => {
                    for pc in trace.pre_call_env.iter().filter(|pc| pc.session == id && pc.step == i) {
                        let mut g = world.lock();
                        g.apply_env(id, &pc.event);
                    }
                    sess.next_is_main = true;
                    let res = sess.raw_call(op);
                    let full = match &res {
                        Res::Ok(v) => format!("Ok {:016x} {}", hash_str(&normalize_ids(v)), first_line(&normalize_ids(v), 120)),
                        Res::Err(_) => "Err".to_string(),
                        Res::Panic(m, _) => format!("Panic {}", first_line(m, 80)),
                    };
                    sess.out.observed.push(format!("{}: {}", op.name(), full));
                    checker.after_call(&mut sess, op, &res);
                }
                Step::Env(ev) => {
                    let outcome = {
                        let g = world.lock();
                        let mut g = world.yield_point(g, id, true);
                        g.apply_env(id, ev)
                    };
                    checker.after_env(&mut sess, ev, &outcome);
                }
                Step::Check { kind, args } => {
                    sess.out.stats.checks += 1;
                    checker.on_check(&mut sess, kind, args);
                }
            }
            if sess.out.violations.iter().any(|v| !crate::findings::is_known(v)) {
                break; // stop at the first violation that is not a listed finding
            }
        }
        checker.finish(&mut sess);
    }));
    if body.is_err() {
        let (m, l) = LAST_PANIC.with(|p| p.borrow_mut().take()).unwrap_or_default();
        sess.out.harness_error = Some(format!("harness panic in session {}: {} at {}", id, m, l));
    }
    libmathcat::verif_hooks::install(None);
    world.finish(id);
    sess.out
}

pub fn execute(trace: &Trace, ctx: &Arc<ExecCtx>) -> RunOutput {
    let base = ctx.base.clone();
    let n = trace.sessions.len();
    let world = World::new(base, &trace.world, n, trace.injections.clone(), &trace.sched, ctx.keep_log);
    if trace.world.zipped {
        if let Some(z) = &ctx.zipped_base {
            // zipped deployment layout at A (as MathCAT's build.rs writes it), plain YAML at B
            let mut g = world.lock();
            let _ = g.fs.remove_dir_all(std::path::Path::new(MOUNT_A), None);
            g.fs.mount(z, MOUNT_A, trace.world.start_ms.saturating_sub(86_400_000));
            g.fs.forget_modifications();
        }
    }
    let trace = Arc::new(trace.clone());
    let mut handles = Vec::new();
    for id in 0..n {
        let (w, c, t) = (world.clone(), ctx.clone(), trace.clone());
        let h = std::thread::Builder::new()
            .name(format!("session-{}", id))
            .stack_size(32 << 20)
            .spawn(move || run_session(w, c, t, id))
            .expect("spawn session thread");
        handles.push(h);
    }
    let mut out = RunOutput::default();
    for (id, h) in handles.into_iter().enumerate() {
        match h.join() {
            Ok(so) => {
                out.observed.push(so.observed);
                out.violations.extend(so.violations);
                out.stats.merge(&so.stats);
                out.state_hashes.extend(so.state_hashes);
                out.notes.extend(so.notes);
                if out.harness_error.is_none() {
                    out.harness_error = so.harness_error;
                }
            }
            Err(_) => {
                out.observed.push(vec![]);
                out.harness_error = Some(format!("session thread {} died", id));
            }
        }
    }
    let mut g = world.lock();
    out.log_hash = g.log_hash.0;
    out.log = g.log.take();
    out.interleave_hash = g.interleave_hash.0;
    let ws = g.stats.clone();
    out.stats.seam_calls += ws.seam_calls;
    for (k, v) in ws.seam_by_kind {
        *out.stats.seam_by_kind.entry(k).or_insert(0) += v;
    }
    for (k, v) in ws.faults_fired {
        *out.stats.faults_fired.entry(k).or_insert(0) += v;
    }
    for (k, v) in ws.faults_consumed {
        *out.stats.faults_consumed.entry(k).or_insert(0) += v;
    }
    for (k, v) in ws.injections_fired {
        *out.stats.injections_fired.entry(k).or_insert(0) += v;
    }
    for (k, v) in ws.env_events {
        *out.stats.env_events.entry(k).or_insert(0) += v;
    }
    out.stats.sim_time_ms += ws.sim_time_ms;
    out.stats.switches += ws.switches;
    out.stats.yield_points += ws.yield_points;
    out
}

/// execute + run-level oracles. For multi-session traces (C10's schedule clause): every session's results must
/// equal those of its solo run (the same trace with the other sessions removed).
pub fn execute_checked(trace: &Trace, ctx: &Arc<ExecCtx>) -> RunOutput {
    let mut out = execute(trace, ctx);
    if trace.sessions.len() > 1 && out.harness_error.is_none() && trace.checker == "C10" {
        for i in 0..trace.sessions.len() {
            let mut solo = trace.clone();
            solo.sessions = vec![trace.sessions[i].clone()];
            solo.injections = trace.injections.iter().filter(|j| j.session == i).cloned().map(|mut j| { j.session = 0; j }).collect();
            solo.pre_call_env = trace.pre_call_env.iter().filter(|j| j.session == i).cloned().map(|mut j| { j.session = 0; j }).collect();
            solo.sched = None;
            let so = execute(&solo, ctx);
            out.stats.ref_sessions += 1;
            if let Some(e) = so.harness_error {
                out.harness_error = Some(e);
                break;
            }
            let a = out.observed.get(i).cloned().unwrap_or_default();
            let b = so.observed.first().cloned().unwrap_or_default();
            let mut diff = None;
            for k in 0..a.len().max(b.len()) {
                if a.get(k) != b.get(k) {
                    diff = Some(k);
                    break;
                }
            }
            match diff {
                Some(k) => {
                    let name = a.get(k).or(b.get(k)).map(|x| x.split(':').next().unwrap_or("").to_string()).unwrap_or_default();
                    out.violations.push(Violation {
                        property: trace.property.clone(),
                        class: "schedule-dependent-output".into(),
                        sig: if trace.world.zipped {
                            "a result differs from the solo run of the session in the zipped deployment (sessions extract archives into the shared rules directory)".to_string()
                        } else {
                            format!("{} differs from the solo run of the session", name)
                        },
                        group: if trace.world.zipped { "differs from the solo run (zipped)".into() } else { "differs from the solo run".into() },
                        detail: format!("session {} step {}:
interleaved: {}
solo: {}", i, k, a.get(k).cloned().unwrap_or_default(), b.get(k).cloned().unwrap_or_default()),
                        session: i,
                        step: k,
                    });
                    break;
                }
                None => *out.stats.probes.entry("session_equals_solo_run".into()).or_insert(0) += 1,
            }
            // ... and of its solo run in a PRISTINE process: this worker process has executed other runs before, and the
            // in-process solo run comes after the interleaved one, so process-wide state (a static cache keyed by something
            // both runs share) poisons both alike and they agree. A child process that has never run anything cannot agree.
            if diff.is_none() && !trace.world.zipped {
                match pristine_solo(&solo) {
                    Some(b2) => {
                        if let Some(k) = (0..a.len().max(b2.len())).find(|&k| a.get(k) != b2.get(k)) {
                            let name = a.get(k).or(b2.get(k)).map(|x| x.split(':').next().unwrap_or("").to_string()).unwrap_or_default();
                            out.violations.push(Violation {
                                property: trace.property.clone(),
                                class: "schedule-dependent-output".into(),
                                sig: format!("{} differs from the solo run of the session in a fresh process", name),
                                group: "differs from the solo run in a fresh process".into(),
                                detail: format!("session {} step {}:\nin this process (other sessions and earlier runs in other threads): {}\nsolo, fresh process: {}", i, k, a.get(k).cloned().unwrap_or_default(), b2.get(k).cloned().unwrap_or_default()),
                                session: i,
                                step: k,
                            });
                            break;
                        }
                        *out.stats.probes.entry("session_equals_solo_run_in_fresh_process".into()).or_insert(0) += 1;
                    }
                    None => *out.stats.probes.entry("fresh_process_solo_unavailable".into()).or_insert(0) += 1,
                }
            }
        }
    }
    // C20, "a pure query": the same history with every braille query replaced by a call that does nothing must leave
    // the same results for all other calls and the same final state (a delayed effect of a query - e.g. on what the
    // session holds after the preference files are re-read - shows in no before/after snapshot around the query)
    if trace.checker == "C20" && trace.sessions.len() == 1 && out.harness_error.is_none() && out.violations.is_empty() && trace.injections.is_empty() && trace.pre_call_env.is_empty()
        && trace.sessions[0].iter().any(|s| matches!(s, Step::Check { kind, .. } if kind == "final_observe"))
        && !trace.sessions[0].iter().any(|s| matches!(s, Step::Env(EnvEvent::Fault { .. })))
    {
        let mut control = trace.clone();
        let mut n_queries = 0;
        for st in control.sessions[0].iter_mut() {
            if matches!(st, Step::Call(op) if props::c20::is_query(op)) {
                *st = Step::Call(Op::GetVersion);
                n_queries += 1;
            }
        }
        if n_queries > 0 {
            let co = execute(&control, ctx);
            out.stats.ref_sessions += 1;
            if let Some(e) = co.harness_error {
                out.harness_error = Some(e);
                return out;
            }
            let is_q = |x: &String| x.starts_with("get_braille") || x.starts_with("get_navigation_node_from_braille_position") || x.starts_with("get_version");
            let a: Vec<String> = out.observed.first().cloned().unwrap_or_default().into_iter().filter(|x| !is_q(x)).collect();
            let b: Vec<String> = co.observed.first().cloned().unwrap_or_default().into_iter().filter(|x| !is_q(x)).collect();
            let diff = (0..a.len().max(b.len())).find(|&k| a.get(k) != b.get(k));
            match diff {
                Some(k) => {
                    let name = a.get(k).or(b.get(k)).map(|x| x.split(':').next().unwrap_or("").to_string()).unwrap_or_default();
                    out.violations.push(Violation {
                        property: trace.property.clone(),
                        class: "query-changed-later-state".into(),
                        sig: format!("{} differs from the same history without the braille queries", name),
                        group: "differs from the same history without the queries".into(),
                        detail: format!("with the queries:    {}\nwithout the queries: {}", a.get(k).cloned().unwrap_or_default(), b.get(k).cloned().unwrap_or_default()),
                        session: 0,
                        step: k,
                    });
                }
                None => *out.stats.probes.entry("same_as_history_without_queries".into()).or_insert(0) += 1,
            }
        }
    }
    out
}

/// `mcsim solo`: read a single-session trace (JSON) from stdin, execute it in this fresh process, print its observed
/// results as a JSON array of strings (or {"error": ...}).
pub fn solo_child() -> i32 {
    use std::io::Read;
    let mut buf = String::new();
    if std::io::stdin().read_to_string(&mut buf).is_err() {
        return 2;
    }
    let trace: Trace = match serde_json::from_str(&buf) {
        Ok(t) => t,
        Err(e) => {
            println!("{}", serde_json::json!({"error": format!("bad trace: {}", e)}));
            return 2;
        }
    };
    let ctx = match crate::make_ctx(false) {
        Ok(c) => c,
        Err(e) => {
            println!("{}", serde_json::json!({"error": e}));
            return 2;
        }
    };
    let out = execute(&trace, &ctx);
    if let Some(e) = out.harness_error {
        println!("{}", serde_json::json!({"error": e}));
        return 2;
    }
    println!("{}", serde_json::json!({"observed": out.observed.first().cloned().unwrap_or_default()}));
    0
}

/// observed results of a single-session trace executed by a child process that has never run anything else
fn pristine_solo(solo: &Trace) -> Option<Vec<String>> {
    use std::io::Write;
    use std::process::{Command, Stdio};
    let exe = std::env::current_exe().ok()?;
    let mut child = Command::new(exe).arg("solo").stdin(Stdio::piped()).stdout(Stdio::piped()).stderr(Stdio::null()).spawn().ok()?;
    let text = serde_json::to_string(solo).ok()?;
    child.stdin.take()?.write_all(text.as_bytes()).ok()?;
    let o = child.wait_with_output().ok()?;
    let v: serde_json::Value = serde_json::from_slice(&o.stdout).ok()?;
    let arr = v.get("observed")?.as_array()?;
    Some(arr.iter().filter_map(|x| x.as_str().map(String::from)).collect())
}

// ---------------------------------------------------------------------------------------------------
// Reference ("fresh") sessions for the differential oracle

#[derive(Clone, Debug, PartialEq)]
pub struct RefOut {
    pub set_mathml: Res,
    pub speech: Res,
    pub braille: Res,
    pub overview: Res,
    /// results of the preference sets of the set-up (name, result) that were not Ok
    pub setup_errors: Vec<(String, String)>,
    /// the preferences the reference session had to set (its own value after set_rules_dir differed)
    pub applied: Vec<(String, String)>,
    /// DecimalSeparators and BlockSeparators as the reference session holds them after its set-up
    pub seps: (String, String),
}

static REF_MEMO: OnceLock<Mutex<HashMap<u64, RefOut>>> = OnceLock::new();

/// The expression an ExprRef stands for when that does not depend on the session (everything but Feedback)
pub fn static_expr(e: &ExprRef) -> Option<String> {
    match e {
        ExprRef::Pool(i) => Some(pools::VALID_EXPRS[i % pools::VALID_EXPRS.len()].to_string()),
        ExprRef::Bad(_) | ExprRef::Feedback => None,
        ExprRef::Corpus(i) => {
            let c = pools::corpus();
            Some(c[i % c.len()].to_string())
        }
        ExprRef::Lit(s) => Some(s.clone()),
        ExprRef::Gen { seed, ids } => Some(crate::mml::generate(*seed, crate::mml::id_mode(*ids))),
    }
}

/// Order in which a reference session is given its preferences (see DESIGN 4.3)
pub fn order_prefs_for_reference(prefs: &[(String, String)]) -> Vec<(String, String)> {
    let mut first = Vec::new();
    let mut rest: Vec<(String, String)> = Vec::new();
    let mut last = Vec::new();
    for (n, v) in prefs {
        match n.as_str() {
            "LanguageAuto" | "Language" => first.push((n.clone(), v.clone())),
            "DecimalSeparators" | "BlockSeparators" => last.push((n.clone(), v.clone())),
            _ => rest.push((n.clone(), v.clone())),
        }
    }
    // LanguageAuto can only be set while Language is Auto. The callers drop LanguageAuto when the session's Language is
    // not Auto (it is not looked at then); otherwise Language=Auto goes first (the preference files may say otherwise)
    first.sort_by_key(|(n, _)| if n == "Language" { 0 } else { 1 });
    rest.sort();
    last.sort_by_key(|(n, _)| if n == "DecimalSeparators" { 0 } else { 1 });
    let mut v = first;
    v.extend(rest);
    v.extend(last);
    v
}

/// Run a fresh session in a private copy of `fs`: set_rules_dir, then every given preference (the full snapshot of
/// the session under test, in the given order) whose value differs from what the fresh session holds itself (it reads
/// the same preference files), set_mathml(expr), then speech, braille, overview. Memoised per process by content.
pub fn reference_outputs(s: &mut Sess, fs: &SimFs, rules_dir: &str, prefs: &[(String, String)], expr: &str) -> RefOut {
    let mut h = Fnv::new();
    h.u64(fs.content_hash());
    h.str(rules_dir);
    for (n, v) in prefs {
        h.str(n);
        h.str(v);
    }
    h.str(expr);
    let key = h.0;
    let memo = REF_MEMO.get_or_init(|| Mutex::new(HashMap::new()));
    if let Some(r) = memo.lock().unwrap().get(&key) {
        s.out.stats.ref_memo_hits += 1;
        return r.clone();
    }
    s.out.stats.ref_sessions += 1;
    let fs = fs.clone();
    let ctx = s.ctx.clone();
    let rules_dir = rules_dir.to_string();
    let prefs: Vec<(String, String)> = prefs.to_vec();
    let expr = expr.to_string();
    let handle = std::thread::Builder::new()
        .name("reference".into())
        .stack_size(32 << 20)
        .spawn(move || {
            let cfg = WorldCfg::default();
            let world = World::from_fs(ctx.base.clone(), fs, &cfg, 1, vec![], &None, false);
            let env: Arc<dyn libmathcat::verif_hooks::VerifEnv> = Arc::new(SimEnv { world: world.clone(), session: 0 });
            libmathcat::verif_hooks::install(Some(env));
            let mut setup_errors = Vec::new();
            let r = dispatch(&Op::SetRulesDir(rules_dir.clone()));
            if !r.is_ok() {
                setup_errors.push(("set_rules_dir".to_string(), r.short()));
            }
            let mut applied = Vec::new();
            for (n, v) in &prefs {
                if matches!(dispatch(&Op::GetPref(n.clone())), Res::Ok(cur) if &cur == v) {
                    continue;
                }
                // an unset LanguageAuto means "en" (it cannot be set back to the empty string through the API)
                let v = if n == "LanguageAuto" && v.is_empty() { &"en".to_string() } else { v };
                applied.push((n.clone(), v.clone()));
                let r = dispatch(&Op::SetPref(n.clone(), v.clone()));
                if !r.is_ok() {
                    setup_errors.push((n.clone(), r.short()));
                }
            }
            let sep = |n: &str| match dispatch(&Op::GetPref(n.into())) {
                Res::Ok(v) => v,
                _ => String::new(),
            };
            let seps = (sep("DecimalSeparators"), sep("BlockSeparators"));
            let set_mathml = dispatch(&Op::SetMathml(ExprRef::Lit(expr)));
            let speech = dispatch(&Op::Speech);
            let braille = dispatch(&Op::Braille(IdRef::Lit(String::new())));
            let overview = dispatch(&Op::Overview);
            libmathcat::verif_hooks::install(None);
            RefOut { set_mathml, speech, braille, overview, setup_errors, applied, seps }
        })
        .expect("spawn reference thread");
    let out = match handle.join() {
        Ok(o) => o,
        Err(_) => RefOut {
            set_mathml: Res::Err("harness: reference thread died".into()),
            speech: Res::Err(String::new()),
            braille: Res::Err(String::new()),
            overview: Res::Err(String::new()),
            setup_errors: vec![("harness".into(), "reference thread died".into())],
            applied: vec![],
            seps: (String::new(), String::new()),
        },
    };
    memo.lock().unwrap().insert(key, out.clone());
    out
}

/// Preference snapshot of a fresh session in a private copy of `fs`: set_rules_dir, then the given set_preference
/// calls in the given order (the sets a session accepted, replayed), one speech call so that nothing is pending,
/// then get_preference for every name. Memoised per process by content.
pub fn reference_prefs(s: &mut Sess, fs: &SimFs, rules_dir: &str, sets: &[(String, String)], names: &[String], user_config_dir: bool) -> HashMap<String, String> {
    static MEMO: OnceLock<Mutex<HashMap<u64, HashMap<String, String>>>> = OnceLock::new();
    let mut h = Fnv::new();
    h.u64(fs.content_hash());
    h.str(rules_dir);
    h.u64(user_config_dir as u64);
    for (n, v) in sets {
        h.str(n);
        h.str(v);
    }
    let key = h.0;
    let memo = MEMO.get_or_init(|| Mutex::new(HashMap::new()));
    if let Some(r) = memo.lock().unwrap().get(&key) {
        s.out.stats.ref_memo_hits += 1;
        return r.clone();
    }
    s.out.stats.ref_sessions += 1;
    let fs = fs.clone();
    let ctx = s.ctx.clone();
    let rules_dir = rules_dir.to_string();
    let sets: Vec<(String, String)> = sets.to_vec();
    let names: Vec<String> = names.to_vec();
    let handle = std::thread::Builder::new()
        .name("reference-prefs".into())
        .stack_size(32 << 20)
        .spawn(move || {
            let cfg = WorldCfg { user_config_dir, ..WorldCfg::default() };
            let world = World::from_fs(ctx.base.clone(), fs, &cfg, 1, vec![], &None, false);
            let env: Arc<dyn libmathcat::verif_hooks::VerifEnv> = Arc::new(SimEnv { world: world.clone(), session: 0 });
            libmathcat::verif_hooks::install(Some(env));
            let _ = dispatch(&Op::SetRulesDir(rules_dir));
            for (n, v) in &sets {
                let _ = dispatch(&Op::SetPref(n.clone(), v.clone()));
            }
            let _ = dispatch(&Op::SetMathml(ExprRef::Lit("<math><mi>x</mi></math>".into())));
            let mut m = HashMap::new();
            for n in names {
                if let Res::Ok(v) = dispatch(&Op::GetPref(n.clone())) {
                    m.insert(n, v);
                }
            }
            libmathcat::verif_hooks::install(None);
            m
        })
        .expect("spawn reference thread");
    let out = handle.join().unwrap_or_default();
    memo.lock().unwrap().insert(key, out.clone());
    out
}

/// preference values of a fresh session (set_rules_dir only) in a pristine world, per process
pub fn fresh_defaults(s: &mut Sess, names: &[String]) -> HashMap<String, String> {
    static DEFAULTS: OnceLock<Mutex<Option<HashMap<String, String>>>> = OnceLock::new();
    let cell = DEFAULTS.get_or_init(|| Mutex::new(None));
    if let Some(d) = cell.lock().unwrap().as_ref() {
        return d.clone();
    }
    let ctx = s.ctx.clone();
    let names: Vec<String> = names.to_vec();
    let handle = std::thread::Builder::new()
        .stack_size(32 << 20)
        .spawn(move || {
            let cfg = WorldCfg::default();
            let world = World::new(ctx.base.clone(), &cfg, 1, vec![], &None, false);
            let env: Arc<dyn libmathcat::verif_hooks::VerifEnv> = Arc::new(SimEnv { world: world.clone(), session: 0 });
            libmathcat::verif_hooks::install(Some(env));
            let _ = dispatch(&Op::SetRulesDir(MOUNT_A.to_string()));
            let mut m = HashMap::new();
            for n in names {
                if let Res::Ok(v) = dispatch(&Op::GetPref(n.clone())) {
                    m.insert(n, v);
                }
            }
            libmathcat::verif_hooks::install(None);
            m
        })
        .expect("spawn");
    let m = handle.join().unwrap_or_default();
    *cell.lock().unwrap() = Some(m.clone());
    m
}

pub fn state_hash_of(parts: &[&str]) -> u64 {
    let mut h = Fnv::new();
    for p in parts {
        h.str(p);
    }
    h.0
}

pub fn hash_str(s: &str) -> u64 {
    fnv_str(s)
}


/// (debugging aid, not a check) generated expressions through every output and a few navigation commands, in fresh
/// sessions on 16 threads; prints the distinct panic sites with a count and the first expression that reached each.
pub fn genscan(from: u64, to: u64) -> i32 {
    let ctx = match crate::make_ctx(false) {
        Ok(c) => c,
        Err(e) => {
            eprintln!("HARNESS-ERROR: {}", e);
            return 2;
        }
    };
    let found: Arc<Mutex<std::collections::BTreeMap<String, (usize, String)>>> = Arc::new(Mutex::new(Default::default()));
    let n_threads = 16u64;
    let mut handles = Vec::new();
    for w in 0..n_threads {
        let ctx = ctx.clone();
        let found = found.clone();
        handles.push(
            std::thread::Builder::new()
                .stack_size(64 << 20)
                .spawn(move || {
                    let cfg = WorldCfg::default();
                    let fs = SimFs::new(&ctx.base, cfg.start_ms.saturating_sub(86_400_000));
                    let world = World::from_fs(ctx.base.clone(), fs, &cfg, 1, vec![], &None, false);
                    let env: Arc<dyn libmathcat::verif_hooks::VerifEnv> = Arc::new(SimEnv { world: world.clone(), session: 0 });
                    libmathcat::verif_hooks::install(Some(env));
                    let _ = dispatch(&Op::SetRulesDir(MOUNT_A.into()));
                    let codes = ["Nemeth", "UEB", "CMU", "Vietnam", "LaTeX", "ASCIIMath", "Swedish"];
                    let mut seed = from + w;
                    while seed < to {
                        let ids = (seed % 3) as u8;
                        let src = crate::mml::generate(seed, crate::mml::id_mode(ids));
                        let _ = dispatch(&Op::SetPref("BrailleCode".into(), codes[(seed / 3) as usize % codes.len()].into()));
                        let _ = dispatch(&Op::SetPref("SpeechStyle".into(), if seed % 2 == 0 { "ClearSpeak" } else { "SimpleSpeak" }.into()));
                        let mut ops = vec![Op::SetMathml(ExprRef::Lit(src.clone())), Op::Speech, Op::Braille(IdRef::Lit(String::new())), Op::Overview, Op::NavBraille];
                        for c in ["ZoomIn", "MoveNext", "MoveNext", "ZoomIn", "MovePrevious", "ZoomOutAll", "MoveEnd", "ReadCurrent", "DescribeCurrent", "MoveCellDown", "MoveLineStart", "WhereAmIAll"] {
                            ops.push(Op::Cmd(c.into()));
                        }
                        ops.push(Op::BraillePos);
                        for k in [0usize, 1, 3, 7, 15] {
                            ops.push(Op::NodeFromPos(PosRef::Abs(k)));
                        }
                        for op in ops {
                            let r = dispatch(&op);
                            if let Res::Panic(p, loc) = &r {
                                let key = format!("{} @ {} :: {}", op.name(), loc, first_line(p, 160));
                                let mut f = found.lock().unwrap();
                                let e = f.entry(key).or_insert((0, format!("seed={} ids={} {}", seed, ids, src)));
                                e.0 += 1;
                            }
                            if matches!(op, Op::SetMathml(_)) && !r.is_ok() {
                                break;
                            }
                        }
                        seed += n_threads;
                    }
                    libmathcat::verif_hooks::install(None);
                })
                .expect("spawn"),
        );
    }
    for h in handles {
        let _ = h.join();
    }
    let f = found.lock().unwrap();
    let mut v: Vec<_> = f.iter().collect();
    v.sort_by_key(|(_, (n, _))| std::cmp::Reverse(*n));
    for (k, (n, ex)) in &v {
        println!("{:6}  {}\n        {}", n, k, first_line(ex, 700));
    }
    println!("distinct panic signatures: {}", f.len());
    // one minimised expression per panic location (file:line)
    let mut by_loc: std::collections::BTreeMap<String, String> = Default::default();
    for (k, (_, ex)) in &v {
        let loc = k.split(" :: ").next().unwrap_or("").split(" @ ").nth(1).unwrap_or("").to_string();
        let src = ex.splitn(3, ' ').nth(2).unwrap_or("").to_string();
        by_loc.entry(loc).or_insert(src);
    }
    let ctx2 = ctx.clone();
    let h = std::thread::Builder::new()
        .stack_size(64 << 20)
        .spawn(move || {
            let cfg = WorldCfg::default();
            let fs = SimFs::new(&ctx2.base, cfg.start_ms.saturating_sub(86_400_000));
            let world = World::from_fs(ctx2.base.clone(), fs, &cfg, 1, vec![], &None, false);
            let env: Arc<dyn libmathcat::verif_hooks::VerifEnv> = Arc::new(SimEnv { world: world.clone(), session: 0 });
            libmathcat::verif_hooks::install(Some(env));
            let _ = dispatch(&Op::SetRulesDir(MOUNT_A.into()));
            let panics_at = |src: &str, loc: &str| -> bool {
                for code in ["Nemeth", "UEB"] {
                    let _ = dispatch(&Op::SetPref("BrailleCode".into(), code.into()));
                    let ops = [Op::SetMathml(ExprRef::Lit(src.to_string())), Op::Speech, Op::Braille(IdRef::Lit(String::new())), Op::Overview, Op::NavBraille, Op::BraillePos, Op::NodeFromPos(PosRef::Abs(0)), Op::NodeFromPos(PosRef::Abs(1))];
                    for op in ops {
                        let r = dispatch(&op);
                        if let Res::Panic(_, l) = &r {
                            if l == loc {
                                return true;
                            }
                        }
                        if matches!(op, Op::SetMathml(_)) && !r.is_ok() {
                            break;
                        }
                    }
                }
                false
            };
            for (loc, src) in by_loc {
                let mut best = src.clone();
                if !panics_at(&best, &loc) {
                    println!("MIN {} (not reproduced with default preferences)\n    {}", loc, first_line(&best, 400));
                    continue;
                }
                let mut progress = true;
                while progress {
                    progress = false;
                    for cand in crate::mml::reductions(&best) {
                        if cand.len() < best.len() && panics_at(&cand, &loc) {
                            best = cand;
                            progress = true;
                            break;
                        }
                    }
                }
                println!("MIN {}\n    {}", loc, best);
            }
            libmathcat::verif_hooks::install(None);
        })
        .expect("spawn");
    let _ = h.join();
    0
}


/// (debugging aid) each argument through set_mathml, speech and braille in one fresh session; "NAME=VALUE" arguments set preferences
pub fn try_exprs(exprs: &[String]) -> i32 {
    let ctx = match crate::make_ctx(false) {
        Ok(c) => c,
        Err(e) => {
            eprintln!("HARNESS-ERROR: {}", e);
            return 2;
        }
    };
    let exprs = exprs.to_vec();
    let h = std::thread::Builder::new()
        .stack_size(64 << 20)
        .spawn(move || {
            let cfg = WorldCfg::default();
            let fs = SimFs::new(&ctx.base, cfg.start_ms.saturating_sub(86_400_000));
            let world = World::from_fs(ctx.base.clone(), fs, &cfg, 1, vec![], &None, false);
            let env: Arc<dyn libmathcat::verif_hooks::VerifEnv> = Arc::new(SimEnv { world: world.clone(), session: 0 });
            libmathcat::verif_hooks::install(Some(env));
            let _ = dispatch(&Op::SetRulesDir(MOUNT_A.into()));
            for e in exprs {
                if let Some(n) = e.strip_prefix('?') {
                    println!("get_preference({}) -> {:?}", n, dispatch(&Op::GetPref(n.into())));
                    continue;
                }
                if !e.starts_with('<') {
                    if let Some((n, v)) = e.split_once('=') {
                        println!("set_preference({},{}) -> {:?}", n, v, dispatch(&Op::SetPref(n.into(), v.into())));
                        continue;
                    }
                }
                println!("== {}", e);
                for op in [Op::SetMathml(ExprRef::Lit(e.clone())), Op::Speech, Op::Braille(IdRef::Lit(String::new())), Op::Overview] {
                    let r = dispatch(&op);
                    println!("  {:<18} {}", op.name(), match &r { Res::Ok(v) => format!("Ok {}", normalize_ids(v).replace('\n', "")), Res::Err(e) => format!("Err {}", first_line(e, 300)), Res::Panic(m, l) => format!("PANIC {} @ {}", first_line(m, 200), l) });
                }
            }
            libmathcat::verif_hooks::install(None);
        })
        .expect("spawn");
    let _ = h.join();
    0
}
