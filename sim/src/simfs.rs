//! In-memory file system the simulated MathCAT sessions see through the `verif_hooks` seam.
//! No symlinks, absolute paths only ("/sim/..."); relative paths resolve under a non-existent cwd.
use std::collections::{BTreeMap, HashMap, HashSet};
use std::io;
use std::path::{Component, Path, PathBuf};
use std::sync::Arc;

use crate::rng::{fnv_bytes, Fnv};

pub const MOUNT_A: &str = "/sim/A/Rules";
pub const MOUNT_B: &str = "/sim/B/Rules";
pub const CONFIG_DIR: &str = "/sim/home/.config";

/// The repository's `Rules/` directory as it is in the working tree, read once per process.
pub struct BaseTree {
    pub files: BTreeMap<String, Arc<[u8]>>, // relative path ('/' separated) -> bytes
    pub hash: u64,
}

pub fn load_base(rules_dir: &Path) -> io::Result<BaseTree> {
    fn walk(dir: &Path, rel: &str, out: &mut BTreeMap<String, Arc<[u8]>>) -> io::Result<()> {
        let mut entries: Vec<_> = std::fs::read_dir(dir)?.collect::<Result<Vec<_>, _>>()?;
        entries.sort_by_key(|e| e.file_name());
        for e in entries {
            let name = e.file_name().to_string_lossy().to_string();
            let rel_path = if rel.is_empty() { name.clone() } else { format!("{}/{}", rel, name) };
            let ft = e.file_type()?;
            if ft.is_dir() {
                walk(&e.path(), &rel_path, out)?;
            } else if ft.is_file() {
                if name.ends_with(".zip") {
                    continue; // left-overs of a zipped run are not part of the source tree
                }
                let bytes = std::fs::read(e.path())?;
                out.insert(rel_path, Arc::from(bytes.into_boxed_slice()));
            }
        }
        Ok(())
    }
    let mut files = BTreeMap::new();
    walk(rules_dir, "", &mut files)?;
    let mut h = Fnv::new();
    for (k, v) in &files {
        h.str(k);
        h.u64(fnv_bytes(v));
    }
    Ok(BaseTree { files, hash: h.0 })
}

#[derive(Clone, Debug, PartialEq, Eq)]
pub enum FaultClass {
    /// a load that consumes these bytes must fail
    MustErr,
    /// a load may legally succeed with these bytes (a different but well-formed configuration)
    MayLoad,
}

#[derive(Clone, Debug)]
pub struct FaultTag {
    pub kind: String,
    pub class: FaultClass,
}

#[derive(Clone, Debug)]
pub struct FileEntry {
    pub bytes: Arc<[u8]>,
    pub mtime_ms: u64,
    pub content_id: u64,
    pub fault: Option<FaultTag>,
}

#[derive(Clone, Default)]
pub struct SimFs {
    files: HashMap<PathBuf, FileEntry>,
    dirs: HashSet<PathBuf>,
    /// paths whose content differs from the pristine mount: path -> content id (0 = removed)
    modified: BTreeMap<PathBuf, u64>,
    /// paths removed by a fault (so that a probe for them can be attributed to the fault)
    pub removed_by_fault: HashMap<PathBuf, FaultTag>,
    /// None = directory listings sorted by name; Some(k) = a fixed permutation derived from k
    pub dir_order: Option<u64>,
}

fn normalize(path: &Path) -> PathBuf {
    // purely lexical; used for keys. Relative paths live under a cwd that does not exist.
    let mut out = PathBuf::new();
    if !path.is_absolute() {
        out.push("/sim/cwd");
    }
    for c in path.components() {
        match c {
            Component::RootDir => out.push("/"),
            Component::CurDir | Component::Prefix(_) => {}
            Component::ParentDir => {
                out.pop();
            }
            Component::Normal(p) => out.push(p),
        }
    }
    out
}

impl SimFs {
    pub fn new(base: &BaseTree, start_ms: u64) -> SimFs {
        let mut fs = SimFs::default();
        for d in ["/", "/sim", "/sim/A", "/sim/B", "/sim/home", CONFIG_DIR] {
            fs.dirs.insert(PathBuf::from(d));
        }
        for mount in [MOUNT_A, MOUNT_B] {
            fs.mount(base, mount, start_ms);
        }
        fs
    }

    pub fn mount(&mut self, base: &BaseTree, mount: &str, mtime_ms: u64) {
        let root = PathBuf::from(mount);
        self.mkdirs(&root);
        for (rel, bytes) in &base.files {
            let p = root.join(rel);
            if let Some(parent) = p.parent() {
                self.mkdirs(parent);
            }
            self.files.insert(p, FileEntry { bytes: bytes.clone(), mtime_ms, content_id: fnv_bytes(bytes), fault: None });
        }
    }

    fn mkdirs(&mut self, dir: &Path) {
        for a in dir.ancestors() {
            if !self.dirs.insert(a.to_path_buf()) {
                break;
            }
        }
    }

    pub fn is_file(&self, path: &Path) -> bool {
        self.files.contains_key(&normalize(path))
    }
    pub fn is_dir(&self, path: &Path) -> bool {
        self.dirs.contains(&normalize(path))
    }
    pub fn get(&self, path: &Path) -> Option<&FileEntry> {
        self.files.get(&normalize(path))
    }

    pub fn read_dir_names(&self, path: &Path) -> Option<Vec<String>> {
        let dir = normalize(path);
        if !self.dirs.contains(&dir) {
            return None;
        }
        let mut names: Vec<String> = Vec::new();
        for p in self.files.keys().chain(self.dirs.iter()) {
            if p.parent() == Some(dir.as_path()) {
                if let Some(n) = p.file_name() {
                    names.push(n.to_string_lossy().to_string());
                }
            }
        }
        names.sort();
        names.dedup();
        if let Some(k) = self.dir_order {
            // fixed permutation: order by hash(name, k)
            names.sort_by_key(|n| {
                let mut h = Fnv::new();
                h.u64(k);
                h.str(n);
                h.0
            });
        }
        Some(names)
    }

    /// `std::fs::canonicalize` without symlinks: every component must exist, intermediate ones must be directories.
    pub fn canonicalize(&self, path: &Path) -> io::Result<PathBuf> {
        if path.as_os_str().is_empty() {
            return Err(io::Error::new(io::ErrorKind::NotFound, "No such file or directory (os error 2)"));
        }
        let mut cur = PathBuf::new();
        if !path.is_absolute() {
            cur.push("/sim/cwd");
        }
        for c in path.components() {
            match c {
                Component::RootDir => cur.push("/"),
                Component::CurDir | Component::Prefix(_) => {}
                Component::ParentDir => {
                    if !self.dirs.contains(&cur) {
                        return Err(self.missing_or_notdir(&cur));
                    }
                    cur.pop();
                }
                Component::Normal(p) => {
                    if !self.dirs.contains(&cur) {
                        return Err(self.missing_or_notdir(&cur));
                    }
                    cur.push(p);
                }
            }
        }
        if self.dirs.contains(&cur) || self.files.contains_key(&cur) {
            Ok(cur)
        } else {
            Err(io::Error::new(io::ErrorKind::NotFound, "No such file or directory (os error 2)"))
        }
    }

    fn missing_or_notdir(&self, p: &Path) -> io::Error {
        if self.files.contains_key(p) {
            io::Error::new(io::ErrorKind::Other, "Not a directory (os error 20)")
        } else {
            io::Error::new(io::ErrorKind::NotFound, "No such file or directory (os error 2)")
        }
    }

    pub fn read(&self, path: &Path) -> io::Result<FileEntry> {
        let p = normalize(path);
        match self.files.get(&p) {
            Some(e) => Ok(e.clone()),
            None => {
                if self.dirs.contains(&p) {
                    Err(io::Error::new(io::ErrorKind::Other, "Is a directory (os error 21)"))
                } else {
                    Err(io::Error::new(io::ErrorKind::NotFound, "No such file or directory (os error 2)"))
                }
            }
        }
    }

    pub fn modified(&self, path: &Path) -> Option<u64> {
        let p = normalize(path);
        if let Some(e) = self.files.get(&p) {
            return Some(e.mtime_ms);
        }
        if self.dirs.contains(&p) {
            return Some(1); // directories have some mtime; MathCAT never asks
        }
        None
    }

    pub fn write(&mut self, path: &Path, bytes: Arc<[u8]>, mtime_ms: u64, fault: Option<FaultTag>) -> io::Result<()> {
        let p = normalize(path);
        match p.parent() {
            Some(parent) if self.dirs.contains(parent) => {}
            _ => return Err(io::Error::new(io::ErrorKind::NotFound, "No such file or directory (os error 2)")),
        }
        if self.dirs.contains(&p) {
            return Err(io::Error::new(io::ErrorKind::Other, "Is a directory (os error 21)"));
        }
        let content_id = fnv_bytes(&bytes);
        self.modified.insert(p.clone(), content_id);
        self.removed_by_fault.remove(&p);
        self.files.insert(p, FileEntry { bytes, mtime_ms, content_id, fault });
        Ok(())
    }

    pub fn touch(&mut self, path: &Path, mtime_ms: u64) -> bool {
        match self.files.get_mut(&normalize(path)) {
            Some(e) => {
                e.mtime_ms = mtime_ms;
                true
            }
            None => false,
        }
    }

    pub fn remove_file(&mut self, path: &Path, fault: Option<FaultTag>) -> Option<FileEntry> {
        let p = normalize(path);
        let old = self.files.remove(&p);
        if old.is_some() {
            self.modified.insert(p.clone(), 0);
            if let Some(f) = fault {
                self.removed_by_fault.insert(p, f);
            }
        }
        old
    }

    /// remove a directory and everything below it; returns what was removed so that a repair can put it back
    pub fn remove_dir_all(&mut self, path: &Path, fault: Option<FaultTag>) -> (Vec<PathBuf>, Vec<(PathBuf, FileEntry)>) {
        let p = normalize(path);
        let dirs: Vec<PathBuf> = self.dirs.iter().filter(|d| d.starts_with(&p)).cloned().collect();
        let files: Vec<PathBuf> = self.files.keys().filter(|f| f.starts_with(&p)).cloned().collect();
        let mut removed = Vec::new();
        for d in &dirs {
            self.dirs.remove(d);
        }
        for f in files {
            if let Some(e) = self.files.remove(&f) {
                self.modified.insert(f.clone(), 0);
                if let Some(t) = &fault {
                    self.removed_by_fault.insert(f.clone(), t.clone());
                }
                removed.push((f, e));
            }
        }
        if let Some(t) = fault {
            self.removed_by_fault.insert(p, t);
        }
        (dirs, removed)
    }

    pub fn restore(&mut self, dirs: &[PathBuf], files: &[(PathBuf, FileEntry)], mtime_ms: u64) {
        for d in dirs {
            self.removed_by_fault.remove(d);
            self.mkdirs(d);
        }
        for (p, e) in files {
            let mut e = e.clone();
            e.mtime_ms = mtime_ms;
            e.fault = None;
            // a removed file at this path (e.g. "directory replaced by a file") goes away
            self.modified.remove(p);
            self.removed_by_fault.remove(p);
            self.files.insert(p.clone(), e);
        }
    }

    /// forget that `path` differs from pristine (called by repair after writing pristine bytes back)
    pub fn mark_pristine(&mut self, path: &Path) {
        let p = normalize(path);
        self.modified.remove(&p);
        self.removed_by_fault.remove(&p);
    }

    pub fn create_dir_all(&mut self, path: &Path) -> io::Result<()> {
        let p = normalize(path);
        for a in p.ancestors() {
            if self.files.contains_key(a) {
                return Err(io::Error::new(io::ErrorKind::AlreadyExists, "File exists (os error 17)"));
            }
        }
        self.mkdirs(&p);
        Ok(())
    }

    /// hash of everything that differs from the pristine mounts (0 = pristine); mtimes do not count
    pub fn content_hash(&self) -> u64 {
        if self.modified.is_empty() && self.dir_order.is_none() {
            return 0;
        }
        let mut h = Fnv::new();
        for (p, id) in &self.modified {
            h.str(&p.to_string_lossy());
            h.u64(*id);
        }
        h.u64(self.dir_order.unwrap_or(0));
        h.0 | 1
    }

    pub fn all_files_under(&self, dir: &Path) -> Vec<PathBuf> {
        let d = normalize(dir);
        let mut v: Vec<PathBuf> = self.files.keys().filter(|f| f.starts_with(&d)).cloned().collect();
        v.sort();
        v
    }

    /// declare the current content the pristine one (used after mounting an alternative layout)
    pub fn forget_modifications(&mut self) {
        self.modified.clear();
        self.removed_by_fault.clear();
    }

    pub fn removed_fault(&self, path: &Path) -> Option<FaultTag> {
        self.removed_by_fault.get(&normalize(path)).cloned()
    }

    pub fn outstanding_faults(&self) -> usize {
        self.files.values().filter(|e| e.fault.is_some()).count() + self.removed_by_fault.len()
    }
}
