//! Small deterministic PRNG (splitmix64 seeding, xoshiro256** stream). Every random decision of the
//! simulator comes from an instance of this, derived from VERIF_SEED; nothing else is consulted.

#[derive(Clone, Debug)]
pub struct Rng {
    s: [u64; 4],
}

pub fn splitmix64(x: &mut u64) -> u64 {
    *x = x.wrapping_add(0x9E3779B97F4A7C15);
    let mut z = *x;
    z = (z ^ (z >> 30)).wrapping_mul(0xBF58476D1CE4E5B9);
    z = (z ^ (z >> 27)).wrapping_mul(0x94D049BB133111EB);
    z ^ (z >> 31)
}

impl Rng {
    pub fn new(seed: u64) -> Rng {
        let mut x = seed;
        let s = [splitmix64(&mut x), splitmix64(&mut x), splitmix64(&mut x), splitmix64(&mut x)];
        Rng { s }
    }

    /// Independent stream `name` of a run seed
    pub fn stream(seed: u64, name: &str) -> Rng {
        let mut h: u64 = 0xcbf29ce484222325;
        for b in name.bytes() {
            h ^= b as u64;
            h = h.wrapping_mul(0x100000001b3);
        }
        Rng::new(seed ^ h.rotate_left(17) ^ 0xA5A5_5A5A_1234_4321)
    }

    pub fn next_u64(&mut self) -> u64 {
        let result = self.s[1].wrapping_mul(5).rotate_left(7).wrapping_mul(9);
        let t = self.s[1] << 17;
        self.s[2] ^= self.s[0];
        self.s[3] ^= self.s[1];
        self.s[1] ^= self.s[2];
        self.s[0] ^= self.s[3];
        self.s[2] ^= t;
        self.s[3] = self.s[3].rotate_left(45);
        result
    }

    /// uniform in 0..n (n > 0)
    pub fn below(&mut self, n: usize) -> usize {
        debug_assert!(n > 0);
        (self.next_u64() % (n as u64)) as usize
    }

    /// uniform in lo..=hi
    pub fn range(&mut self, lo: usize, hi: usize) -> usize {
        lo + self.below(hi - lo + 1)
    }

    pub fn chance(&mut self, p: f64) -> bool {
        ((self.next_u64() >> 11) as f64) / ((1u64 << 53) as f64) < p
    }

    pub fn pick<'a, T>(&mut self, items: &'a [T]) -> &'a T {
        &items[self.below(items.len())]
    }

    pub fn shuffle<T>(&mut self, items: &mut [T]) {
        for i in (1..items.len()).rev() {
            let j = self.below(i + 1);
            items.swap(i, j);
        }
    }
}

/// FNV-1a 64 bit, used for log and state hashes (deterministic across processes, unlike RandomState)
#[derive(Clone, Copy, Debug)]
pub struct Fnv(pub u64);
impl Default for Fnv {
    fn default() -> Self {
        Fnv(0xcbf29ce484222325)
    }
}
impl Fnv {
    pub fn new() -> Fnv {
        Fnv::default()
    }
    pub fn bytes(&mut self, b: &[u8]) {
        for x in b {
            self.0 ^= *x as u64;
            self.0 = self.0.wrapping_mul(0x100000001b3);
        }
    }
    pub fn str(&mut self, s: &str) {
        self.bytes(s.as_bytes());
        self.bytes(&[0xff]);
    }
    pub fn u64(&mut self, v: u64) {
        self.bytes(&v.to_le_bytes());
    }
}
pub fn fnv_str(s: &str) -> u64 {
    let mut f = Fnv::new();
    f.str(s);
    f.0
}
pub fn fnv_bytes(b: &[u8]) -> u64 {
    let mut f = Fnv::new();
    f.bytes(b);
    f.0
}
