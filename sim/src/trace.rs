//! A trace is everything one simulated run does, written out: world configuration, the explicit list of
//! steps per session (API calls, environment events, checks), in-call fault injections and the schedule
//! stream. `execute(trace)` never looks at VERIF_SEED, so a minimised trace is still replayable.
use serde::{Deserialize, Serialize};

#[derive(Serialize, Deserialize, Clone, Debug, PartialEq)]
pub enum IdRef {
    /// the empty string
    Empty,
    /// n-th id (mod count) of the MathML returned by the last successful set_mathml
    Nth(usize),
    /// n-th id of the expression that was current before the last successful set_mathml
    Stale(usize),
    /// id of the current navigation node
    Nav,
    Lit(String),
}

#[derive(Serialize, Deserialize, Clone, Debug, PartialEq)]
pub enum PosRef {
    Abs(usize),
    /// length (in cells) of the current braille plus d
    LenPlus(usize),
    /// floor(len * n / 1000)
    Permille(usize),
}

#[derive(Serialize, Deserialize, Clone, Debug, PartialEq)]
pub enum ExprRef {
    /// index into the valid pool
    Pool(usize),
    /// index into the invalid pool
    Bad(usize),
    /// index into the corpus extracted from the repository's own tests (sim/pools/corpus.txt)
    Corpus(usize),
    /// the string MathCAT returned from the last successful set_mathml
    Feedback,
    Lit(String),
    /// expression number `seed` of the seeded generator (sim/src/mml.rs); ids: 0 = no author ids, 1 = some, 2 = all
    Gen { seed: u64, ids: u8 },
}

#[derive(Serialize, Deserialize, Clone, Debug, PartialEq)]
pub enum Op {
    SetRulesDir(String),
    GetVersion,
    SetMathml(ExprRef),
    Speech,
    Overview,
    GetPref(String),
    SetPref(String, String),
    Braille(IdRef),
    NavBraille,
    Key { key: usize, shift: bool, ctrl: bool, alt: bool, meta: bool },
    Cmd(String),
    SetNavNode(IdRef, usize),
    NavMathml,
    NavId,
    BraillePos,
    NodeFromPos(PosRef),
}

impl Op {
    pub fn name(&self) -> &'static str {
        match self {
            Op::SetRulesDir(_) => "set_rules_dir",
            Op::GetVersion => "get_version",
            Op::SetMathml(_) => "set_mathml",
            Op::Speech => "get_spoken_text",
            Op::Overview => "get_overview_text",
            Op::GetPref(_) => "get_preference",
            Op::SetPref(_, _) => "set_preference",
            Op::Braille(_) => "get_braille",
            Op::NavBraille => "get_navigation_braille",
            Op::Key { .. } => "do_navigate_keypress",
            Op::Cmd(_) => "do_navigate_command",
            Op::SetNavNode(_, _) => "set_navigation_node",
            Op::NavMathml => "get_navigation_mathml",
            Op::NavId => "get_navigation_mathml_id",
            Op::BraillePos => "get_braille_position",
            Op::NodeFromPos(_) => "get_navigation_node_from_braille_position",
        }
    }
    pub const ALL_NAMES: [&'static str; 16] = [
        "set_rules_dir", "get_version", "set_mathml", "get_spoken_text", "get_overview_text", "get_preference",
        "set_preference", "get_braille", "get_navigation_braille", "do_navigate_keypress", "do_navigate_command",
        "set_navigation_node", "get_navigation_mathml", "get_navigation_mathml_id", "get_braille_position",
        "get_navigation_node_from_braille_position",
    ];
}

#[derive(Serialize, Deserialize, Clone, Debug, PartialEq)]
pub enum FaultKind {
    Deleted,
    Empty,
    /// cut at byte k (per mille of the length), usually leaving invalid YAML
    TruncBytes(usize),
    /// keep only the first n top-level entries (valid YAML, fewer rules); n is per mille of the entry count
    TruncEntries(usize),
    /// mapping instead of sequence / sequence instead of mapping
    WrongTopType,
    /// a scalar document
    Scalar,
    /// sequence of wrong things (e.g. `NumbersOnes: {a: b}`, unicode entry not a list)
    WrongInnerShape,
    /// invalid xpath spliced into a `match:`/`if:` of the entry at per mille position
    InvalidXpath(usize),
    /// unknown key inside a replacement
    UnknownReplacementKey(usize),
    /// extra key at rule level (ignored by the loader: MAY-LOAD)
    ExtraRuleKey(usize),
    TwoDocuments,
    InvalidUtf8(usize),
    /// flip one ASCII letter inside a quoted text (still parses: MAY-LOAD)
    AsciiFlip(usize),
    IncludeMissing,
    /// not valid YAML at all
    Garbage,
    /// directory faults: `path` names a directory
    DirMissing,
    DirIsFile,
}

#[derive(Serialize, Deserialize, Clone, Debug, PartialEq)]
pub enum EnvEvent {
    Clock { ms: u64 },
    Fault { path: String, kind: FaultKind },
    /// restore the pristine content (and for directory faults the whole subtree), mtime = now (> all earlier stamps)
    Repair {
        path: String,
        /// restore from a backup that keeps the file's OLD modification time (cp -p, rsync -t, an installer): the mtime moves
        /// BACKWARDS to what it was before the fault instead of forwards to now
        #[serde(default, skip_serializing_if = "is_false")]
        keep_mtime: bool,
    },
    RepairAll,
    /// mtime = now, content unchanged
    Touch { path: String },
    /// the user (or a settings UI) writes <config>/MathCAT/prefs.yaml
    WriteUserPrefs { content: String },
    RemoveUserPrefs,
    /// the disk fills up: after `after_writes` more data writes every write fails with ENOSPC (the file has been created
    /// or truncated by then: a torn extraction leaves empty files behind)
    DiskFull { after_writes: u64 },
    /// space is available again
    DiskFree,
    /// replace a `Name: value` line inside the system prefs.yaml (user edits the shipped file)
    EditSysPref { mount: String, name: String, value: String },
}

fn is_false(b: &bool) -> bool {
    !*b
}

#[derive(Serialize, Deserialize, Clone, Debug, PartialEq)]
pub enum Step {
    Call(Op),
    Env(EnvEvent),
    /// a property-specific compound step, interpreted by the property's checker (`kind`, arguments)
    Check { kind: String, args: serde_json::Value },
}

#[derive(Serialize, Deserialize, Clone, Debug, PartialEq)]
pub enum InjectKind {
    /// the read returns EIO
    ReadEio,
    /// the read returns EACCES
    ReadEacces,
    /// existence probe said yes earlier, the read says "not found"
    ReadNotFound,
    /// mtime unavailable (stat fails)
    MtimeUnavailable,
}

/// "the n-th seam call of kind K made by session `session` during step `step` misbehaves"
#[derive(Serialize, Deserialize, Clone, Debug, PartialEq)]
pub struct Injection {
    pub session: usize,
    pub step: usize,
    /// which API call of that step: 0 = the step's own call; k >= 1 = the k-th other call made during the step (checker queries, argument resolution, the calls of a compound check step), in order
    pub sub: usize,
    /// 1-based index among the read (or stat, for MtimeUnavailable) seam calls of that step
    pub nth: usize,
    pub kind: InjectKind,
    /// false: only this call; true: this and every later read of the same path until the step ends
    pub sticky: bool,
}

/// an environment event that happens immediately before the step's own call (after the checker took its
/// "before" snapshot), so that the call itself meets the changed file
#[derive(Serialize, Deserialize, Clone, Debug, PartialEq)]
pub struct PreCallEnv {
    pub session: usize,
    pub step: usize,
    pub event: EnvEvent,
}

#[derive(Serialize, Deserialize, Clone, Debug, PartialEq)]
pub struct Sched {
    pub seed: u64,
    /// probability of handing the baton to another session at a seam call (Y2); at API boundaries (Y1) it is 1/2
    pub p_switch_seam: f64,
}

#[derive(Serialize, Deserialize, Clone, Debug, PartialEq)]
pub struct WorldCfg {
    /// wall clock at the start of the run, ms since the epoch
    pub start_ms: u64,
    /// seed of the library-randomness stream (id prefixes)
    pub lib_rand_seed: u64,
    /// probability that the library-randomness stream repeats its previous value (prefix collisions)
    pub lib_rand_repeat: f64,
    /// None: directory listings sorted; Some(k): a fixed permutation
    pub dir_order: Option<u64>,
    /// whether <config>/MathCAT exists at all
    pub user_config_dir: bool,
    /// mount the zipped deployment layout at MOUNT_A instead of plain YAML
    pub zipped: bool,
}

impl Default for WorldCfg {
    fn default() -> Self {
        WorldCfg { start_ms: 1_790_000_000_000, lib_rand_seed: 1, lib_rand_repeat: 0.0, dir_order: None, user_config_dir: true, zipped: false }
    }
}

#[derive(Serialize, Deserialize, Clone, Debug, PartialEq)]
pub struct Trace {
    pub property: String,
    /// which checker interprets the run (usually = property; sub-modes like "C14enum")
    pub checker: String,
    pub checker_args: serde_json::Value,
    pub world: WorldCfg,
    pub sessions: Vec<Vec<Step>>,
    pub injections: Vec<Injection>,
    #[serde(default)]
    pub pre_call_env: Vec<PreCallEnv>,
    pub sched: Option<Sched>,
    /// free text: how the generator made this trace (seed, template name)
    pub origin: String,
}

impl Trace {
    pub fn new(property: &str, checker: &str) -> Trace {
        Trace {
            property: property.to_string(),
            checker: checker.to_string(),
            checker_args: serde_json::Value::Null,
            world: WorldCfg::default(),
            sessions: vec![vec![]],
            injections: vec![],
            pre_call_env: vec![],
            sched: None,
            origin: String::new(),
        }
    }
    pub fn n_steps(&self) -> usize {
        self.sessions.iter().map(|s| s.len()).sum()
    }
}

/// Result of one API call as the harness sees it
#[derive(Serialize, Deserialize, Clone, Debug, PartialEq)]
pub enum Res {
    Ok(String),
    /// the full error chain (`errors_to_string`)
    Err(String),
    /// message, file:line
    Panic(String, String),
}

impl Res {
    pub fn is_ok(&self) -> bool {
        matches!(self, Res::Ok(_))
    }
    pub fn is_err(&self) -> bool {
        matches!(self, Res::Err(_))
    }
    pub fn is_panic(&self) -> bool {
        matches!(self, Res::Panic(_, _))
    }
    pub fn ok(&self) -> Option<&str> {
        match self {
            Res::Ok(s) => Some(s),
            _ => None,
        }
    }
    pub fn short(&self) -> String {
        let cut = |s: &str| -> String {
            let s = s.replace('\n', "\\n");
            if s.chars().count() > 160 {
                format!("{}…", s.chars().take(160).collect::<String>())
            } else {
                s
            }
        };
        match self {
            Res::Ok(s) => format!("Ok({})", cut(s)),
            Res::Err(s) => format!("Err({})", cut(s)),
            Res::Panic(m, l) => format!("PANIC({} @ {})", cut(m), l),
        }
    }
}

#[derive(Serialize, Deserialize, Clone, Debug, PartialEq)]
pub struct Violation {
    pub property: String,
    /// violation class, e.g. "panic", "recovery-mismatch", "stale-nav-id"
    pub class: String,
    /// stable signature used for shrinking and for matching known findings
    pub sig: String,
    /// coarser key (mechanism level): one replay file is written per (class, group) and worker
    #[serde(default)]
    pub group: String,
    /// human-readable details (not part of the signature)
    pub detail: String,
    pub session: usize,
    pub step: usize,
}

impl Violation {
    pub fn key(&self) -> String {
        format!("{}|{}|{}", self.property, self.class, self.sig)
    }
}
