//! Trace minimisation (delta debugging over steps, injections and sessions). A candidate is kept when it still
//! produces an un-listed violation with the same (property, class, signature).
use std::sync::Arc;
use std::time::Instant;

use crate::exec::{execute_checked as execute, ExecCtx};
use crate::findings;
use crate::trace::*;

fn reproduces(t: &Trace, key: &str, ctx: &Arc<ExecCtx>) -> bool {
    let out = execute(t, ctx);
    out.harness_error.is_none() && out.violations.iter().any(|v| !findings::is_known(v) && v.key() == key)
}

fn remove_steps(t: &Trace, session: usize, start: usize, len: usize) -> Trace {
    let mut c = t.clone();
    c.sessions[session].drain(start..start + len);
    let mut inj = Vec::new();
    for i in &t.injections {
        if i.session != session {
            inj.push(i.clone());
        } else if i.step < start {
            inj.push(i.clone());
        } else if i.step >= start + len {
            let mut j = i.clone();
            j.step -= len;
            inj.push(j);
        }
    }
    c.injections = inj;
    let mut pre = Vec::new();
    for p in &t.pre_call_env {
        if p.session != session || p.step < start {
            pre.push(p.clone());
        } else if p.step >= start + len {
            let mut q = p.clone();
            q.step -= len;
            pre.push(q);
        }
    }
    c.pre_call_env = pre;
    c
}

pub fn shrink(trace: &Trace, key: &str, ctx: &Arc<ExecCtx>, max_execs: usize, max_secs: u64) -> (Trace, usize) {
    let mut pred = |t: &Trace| reproduces(t, key, ctx);
    shrink_with(trace, &mut pred, max_execs, max_secs)
}

/// The same minimisation with any "still fails the same way" predicate (process deaths are decided by a child process)
pub fn shrink_with(trace: &Trace, reproduces: &mut dyn FnMut(&Trace) -> bool, max_execs: usize, max_secs: u64) -> (Trace, usize) {
    let started = Instant::now();
    let mut best = trace.clone();
    let mut execs = 0usize;
    let budget_left = |execs: usize| execs < max_execs && started.elapsed().as_secs() < max_secs;

    // drop whole sessions (multi-session traces)
    let mut s = 0;
    while best.sessions.len() > 1 && s < best.sessions.len() && budget_left(execs) {
        let mut c = best.clone();
        c.sessions.remove(s);
        c.injections.retain(|i| i.session != s);
        for i in c.injections.iter_mut() {
            if i.session > s {
                i.session -= 1;
            }
        }
        c.pre_call_env.retain(|i| i.session != s);
        for i in c.pre_call_env.iter_mut() {
            if i.session > s {
                i.session -= 1;
            }
        }
        execs += 1;
        if reproduces(&c) {
            best = c;
        } else {
            s += 1;
        }
    }
    // drop injections
    let mut k = 0;
    while k < best.injections.len() && budget_left(execs) {
        let mut c = best.clone();
        c.injections.remove(k);
        execs += 1;
        if reproduces(&c) {
            best = c;
        } else {
            k += 1;
        }
    }
    // drop steps: chunks of decreasing size
    for session in 0..best.sessions.len() {
        let mut chunk = (best.sessions[session].len() / 2).max(1);
        loop {
            let mut start = 0;
            let mut progress = false;
            while start < best.sessions[session].len() && budget_left(execs) {
                let len = chunk.min(best.sessions[session].len() - start);
                let c = remove_steps(&best, session, start, len);
                execs += 1;
                if reproduces(&c) {
                    best = c;
                    progress = true;
                } else {
                    start += len;
                }
            }
            if !budget_left(execs) {
                break;
            }
            if chunk == 1 && !progress {
                break;
            }
            if !progress || chunk > 1 {
                chunk = (chunk / 2).max(1);
            }
        }
    }
    // shrink the expressions: structural reductions of each set_mathml argument (remove an element, replace it by a
    // child or by a plain token, drop attributes) while the same violation persists
    for session in 0..best.sessions.len() {
        for k in 0..best.sessions[session].len() {
            let Step::Call(Op::SetMathml(e)) = &best.sessions[session][k] else { continue };
            let Some(mut cur) = crate::exec::static_expr(e) else { continue };
            if !cur.trim_start().starts_with("<math") || crate::mml::parse(&cur).is_none() {
                continue;
            }
            let mut progress = true;
            let mut literal = matches!(e, ExprRef::Lit(_));
            while progress && budget_left(execs) {
                progress = false;
                for cand in crate::mml::reductions(&cur) {
                    if !budget_left(execs) {
                        break;
                    }
                    if cand.len() >= cur.len() {
                        continue;
                    }
                    let mut c = best.clone();
                    c.sessions[session][k] = Step::Call(Op::SetMathml(ExprRef::Lit(cand.clone())));
                    execs += 1;
                    if reproduces(&c) {
                        best = c;
                        cur = cand;
                        literal = true;
                        progress = true;
                        break;
                    }
                }
            }
            let _ = literal;
        }
    }
    // simplify the world
    if budget_left(execs) && (best.world.dir_order.is_some() || best.world.lib_rand_repeat > 0.0) {
        let mut c = best.clone();
        c.world.dir_order = None;
        c.world.lib_rand_repeat = 0.0;
        execs += 1;
        if reproduces(&c) {
            best = c;
        }
    }
    (best, execs)
}
