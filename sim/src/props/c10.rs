//! C10 — results depend only on the current expression and preferences: not on the history of the session,
//! not on the number or order of getter calls, not on what other sessions do.
use regex::Regex;
use serde_json::json;
use std::sync::OnceLock;

use crate::exec::*;
use crate::pools;
use crate::props::common::*;
use crate::rng::Rng;
use crate::simfs::*;
use crate::trace::*;

pub struct C10Checker {
    sep_pref_changed_since_set: bool,
    chem_pref_changed_since_set: bool,
    checkpoints: u64,
    /// DecimalSeparators/BlockSeparators were set through the API, or DecimalSeparator was given a value other than Auto, '.'
    /// or ',' (then MathCAT leaves them alone): from then on they are preferences of their own. Until then they are
    /// DERIVED from Language, LanguageAuto and DecimalSeparator and must be what a fresh session derives from those.
    derived_explicit: bool,
}

fn has_separator_number(src: &str) -> bool {
    static RE: OnceLock<Regex> = OnceLock::new();
    let re = RE.get_or_init(|| Regex::new("[0-9][.,' \u{a0}\u{202f}]|[.,][0-9]").unwrap());
    // canonicalization also merges digits and separators that are adjacent tokens (<mn>0</mn><mo>.</mo><mn>5</mn>):
    // look at the text with the tags removed as well
    static TAGS: OnceLock<Regex> = OnceLock::new();
    let tags = TAGS.get_or_init(|| Regex::new("<[^>]*>").unwrap());
    // ... and an <mspace/> between digits is a blank (a block separator) for the number merging
    static MSPACE: OnceLock<Regex> = OnceLock::new();
    let mspace = MSPACE.get_or_init(|| Regex::new("<mspace[^<>]*(/>|>\\s*</mspace>)").unwrap());
    let spaced = mspace.replace_all(src, " ");
    re.is_match(src) || re.is_match(&tags.replace_all(&spaced, ""))
}

const SEP_PREFS: &[&str] = &["Language", "LanguageAuto", "DecimalSeparator", "DecimalSeparators", "BlockSeparators"];

impl C10Checker {
    pub fn new(_t: &Trace, _s: usize) -> C10Checker {
        C10Checker { sep_pref_changed_since_set: false, chem_pref_changed_since_set: false, checkpoints: 0, derived_explicit: false }
    }

    /// `only`: compare just the getters named in `order` and do not call the others (sparse checkpoints: the rule sets of
    /// the getters that are NOT called stay as an earlier configuration left them)
    fn checkpoint(&mut self, s: &mut Sess, reset: bool, order: &[usize], only: bool) {
        let Some(src) = s.cur_src.clone() else { return };
        let Some(dir) = s.rules_dir.clone() else { return };
        self.checkpoints += 1;
        let mode = if reset { "re-set" } else { "as-is" };
        let set = if reset {
            let r = s.call(&Op::SetMathml(ExprRef::Lit(src.clone())));
            if r.is_ok() {
                self.sep_pref_changed_since_set = false;
                self.chem_pref_changed_since_set = false;
            }
            Some(norm(&r))
        } else {
            None
        };
        // the getters, any number of times and in any order: every repetition must give the same result
        let getters = [Op::Speech, Op::Braille(IdRef::Empty), Op::Overview];
        let mut first: Vec<Option<Res>> = vec![None, None, None];
        for &g in order {
            let g = g % 3;
            let r = norm(&s.call(&getters[g]));
            match &first[g] {
                None => first[g] = Some(r),
                Some(f) => {
                    // two errors count as the same answer: the text of an error quotes the live tree, which a braille call
                    // in between annotates (the same reason as in the comparison with the fresh session below)
                    if *f != r && !(f.is_err() && r.is_err()) {
                        s.violation("getter-not-repeatable", format!("{} gives different results when called again", getters[g].name()), format!("first: {}\nlater: {}", f.short(), r.short()));
                        return;
                    }
                    s.probe("getter_repeated_same");
                }
            }
        }
        for g in 0..3 {
            if first[g].is_none() && !only {
                first[g] = Some(norm(&s.call(&getters[g])));
            }
        }
        let mut prefs = prefs_for_reference(s);
        // derived separators are not handed to the fresh session: it has to arrive at the same values from Language,
        // LanguageAuto and DecimalSeparator alone (copying them hid "DecimalSeparator: Auto -> ',' -> Auto leaves ','")
        let held_seps = (
            prefs.iter().find(|(n, _)| n == "DecimalSeparators").map(|(_, v)| v.clone()).unwrap_or_default(),
            prefs.iter().find(|(n, _)| n == "BlockSeparators").map(|(_, v)| v.clone()).unwrap_or_default(),
        );
        let derived = !self.derived_explicit && prefs.iter().any(|(n, v)| n == "DecimalSeparator" && ["Auto", ".", ","].contains(&v.as_str()));
        if derived {
            prefs.retain(|(n, _)| n != "DecimalSeparators" && n != "BlockSeparators");
        }
        let fs = s.world.lock().fs.clone();
        let r = reference_outputs(s, &fs, &dir, &prefs, &src);
        if let Some((n, e)) = r.setup_errors.iter().find(|(n, _)| n != "set_rules_dir" && n != "harness") {
            let held = prefs.iter().find(|(pn, _)| pn == n).map(|(_, v)| v.clone()).unwrap_or_default();
            s.violation_g(
                "state-not-reproducible",
                format!("the session holds a value of {} that a fresh session rejects", n),
                "the session holds a preference value that a fresh session rejects".into(),
                format!("get_preference({:?}) = {:?} in the session; a fresh session answers set_preference({:?},{:?}) with {}", n, held, n, held, e),
            );
            return;
        }
        if derived && r.setup_errors.is_empty() && held_seps != r.seps {
            s.violation_g(
                "history-dependent-output",
                "the separators derived from Language/LanguageAuto/DecimalSeparator differ from those of a fresh session with the same values".to_string(),
                "derived separators differ from a fresh session".to_string(),
                format!(
                    "session: DecimalSeparators={:?} BlockSeparators={:?}\nfresh session: DecimalSeparators={:?} BlockSeparators={:?}\n(they decide how numbers are parsed by the next set_mathml; neither was set through the API in this history)\npreferences given to the fresh session: {:?}",
                    held_seps.0, held_seps.1, r.seps.0, r.seps.1, r.applied
                ),
            );
            return;
        }
        s.probe(if derived { "derived_separators_equal_fresh" } else { "separators_explicit" });
        let mut pairs: Vec<(&str, Res, Res)> = Vec::new();
        for (g, (name, exp)) in [("get_spoken_text", &r.speech), ("get_braille", &r.braille), ("get_overview_text", &r.overview)].iter().enumerate() {
            if let Some(got) = first[g].clone() {
                pairs.push((name, got, norm(exp)));
            }
        }
        if let Some(set) = set {
            pairs.insert(0, ("set_mathml", set, norm(&r.set_mathml)));
        }
        for (name, got, exp) in pairs {
            if got.is_panic() || exp.is_panic() {
                continue;
            }
            // error texts quote the live tree (which braille annotates): compare Ok values and Ok/Err-ness
            let same = if got.is_err() && exp.is_err() { true } else { got == exp };
            if !same {
                let stale_sep = !reset && self.sep_pref_changed_since_set && has_separator_number(&src);
                let stale_chem = !reset && self.chem_pref_changed_since_set;
                let (sig, group) = if stale_sep {
                    (
                        "as-is output of a separator-bearing number after a Language/separator preference change since set_mathml".to_string(),
                        "stale separators".to_string(),
                    )
                } else if stale_chem {
                    ("as-is output after the Chemistry preference changed since set_mathml".to_string(), "stale chemistry marking".to_string())
                } else {
                    (format!("{} ({}) differs from a fresh session with the same preferences", name, mode), format!("{} differs from a fresh session", name))
                };
                s.violation_g(
                    "history-dependent-output",
                    sig,
                    group,
                    format!("expression: {}\nsession: {}\nfresh session: {}\npreferences given to the fresh session: {:?}\nreference set-up errors: {:?}", first_line(&src, 200), got.short(), exp.short(), r.applied, r.setup_errors),
                );
                return;
            }
        }
        s.probe(if reset { "checkpoint_reset_equal" } else { "checkpoint_asis_equal" });
        let h = state_hash_of(&[&src, &format!("{:?}", prefs), mode]);
        s.state_hash(h);
    }
}

impl Checker for C10Checker {
    fn after_call(&mut self, _s: &mut Sess, op: &Op, res: &Res) {
        match op {
            Op::SetPref(n, v) if res.is_ok() && SEP_PREFS.contains(&n.as_str()) => {
                self.sep_pref_changed_since_set = true;
                if n == "DecimalSeparators" || n == "BlockSeparators" || (n == "DecimalSeparator" && !["Auto", ".", ","].contains(&v.as_str())) {
                    self.derived_explicit = true;
                }
            }
            Op::SetPref(n, _) if res.is_ok() && n == "Chemistry" => self.chem_pref_changed_since_set = true,
            Op::SetMathml(_) if res.is_ok() => {
                self.sep_pref_changed_since_set = false;
                self.chem_pref_changed_since_set = false;
            }
            Op::SetRulesDir(_) => {
                self.sep_pref_changed_since_set = true;
                self.chem_pref_changed_since_set = true;
            }
            _ => {}
        }
    }

    fn after_env(&mut self, s: &mut Sess, ev: &EnvEvent, outcome: &str) {
        if outcome == "applied" {
            if let EnvEvent::Touch { .. } = ev {
                s.probe("touch_forces_reload");
            }
        }
    }

    fn on_check(&mut self, s: &mut Sess, kind: &str, args: &serde_json::Value) {
        if kind == "checkpoint" {
            let reset = args["reset"].as_bool().unwrap_or(true);
            let order: Vec<usize> = args["order"].as_array().map(|a| a.iter().filter_map(|x| x.as_u64().map(|v| v as usize)).collect()).unwrap_or_default();
            let only = args["only"].as_bool().unwrap_or(false);
            self.checkpoint(s, reset, &order, only);
        }
    }
}

// ---------------------------------------------------------------------------------------------------

fn checkpoint_step(rng: &mut Rng, reset: bool) -> Step {
    let n = rng.range(0, 6);
    let order: Vec<usize> = (0..n).map(|_| rng.below(3)).collect();
    Step::Check { kind: "checkpoint".into(), args: json!({"reset": reset, "order": order}) }
}

const REAL_LANGS: &[&str] = &["en", "en-gb", "es", "fi", "id", "sv", "vi", "zh-tw", "en-us", "de", "es-mx", "Auto"];

fn random_pref_switch(rng: &mut Rng) -> (String, String) {
    let table: Vec<(&str, Vec<&str>)> = vec![
        ("Language", REAL_LANGS.to_vec()),
        ("Language", REAL_LANGS.to_vec()),
        ("LanguageAuto", vec!["en", "es", "sv", "fi", "zh-tw"]),
        ("SpeechStyle", vec!["ClearSpeak", "SimpleSpeak"]),
        ("SpeechStyle", vec!["ClearSpeak", "SimpleSpeak"]),
        ("BrailleCode", vec!["Nemeth", "UEB", "CMU", "Vietnam", "LaTeX", "ASCIIMath", "Swedish"]),
        ("BrailleCode", vec!["Nemeth", "UEB", "CMU", "Vietnam", "LaTeX", "ASCIIMath", "Swedish"]),
        ("Verbosity", vec!["Terse", "Medium", "Verbose"]),
        ("TTS", vec!["None", "SSML", "SAPI5"]),
        ("CheckRuleFiles", vec!["None", "Prefs", "All"]),
        ("DecimalSeparator", vec!["Auto", ".", ",", "Custom"]),
        ("DecimalSeparators", vec![".", ","]),
        ("BlockSeparators", vec![", \u{a0}\u{202f}", ". \u{a0}\u{202f}", " "]),
        ("NavMode", vec!["Enhanced", "Simple", "Character"]),
        ("Overview", vec!["true", "false"]),
        ("Bookmark", vec!["true", "false"]),
        ("CapitalLetters_UseWord", vec!["true", "false"]),
        ("CapitalLetters_Pitch", vec!["0", "10"]),
        ("CapitalLetters_Beep", vec!["true", "false"]),
        ("SpeechOverrides_CapitalLetters", vec!["", "upper"]),
        ("MathRate", vec!["100", "80"]),
        ("PauseFactor", vec!["100", "0", "200"]),
        ("Pitch", vec!["0", "5"]),
        ("Rate", vec!["180", "100"]),
        ("Volume", vec!["100", "50"]),
        ("IntentErrorRecovery", vec!["IgnoreIntent", "Error"]),
        ("UEB_START_MODE", vec!["Grade1", "Grade2"]),
        ("UseSpacesAroundAllOperators", vec!["true", "false"]),
        ("BrailleNavHighlight", vec!["Off", "EndPoints", "All", "FirstChar"]),
        ("ClearSpeak_Fractions", vec!["Auto", "Over", "Ordinal", "General"]),
        ("ClearSpeak_Exponents", vec!["Auto", "Ordinal", "AfterPower"]),
        ("ClearSpeak_Roots", vec!["Auto", "PosNegSqRoot", "RootEnd"]),
        ("ClearSpeak_ImpliedTimes", vec!["Auto", "MoreImpliedTimes", "None"]),
        ("ClearSpeak_Paren", vec!["Auto", "Speak", "Silent"]),
        ("ClearSpeak_Matrix", vec!["Auto", "SpeakColNum", "EndMatrix"]),
        ("Vietnam_UseDropNumbers", vec!["true", "false"]),
        ("LaTeX_UseShortName", vec!["true", "false"]),
        ("Impairment", vec!["Blindness", "LowVision", "LearningDisability"]),
        ("Chemistry", vec!["SpellOut", "Off"]),
    ];
    let (n, vals) = rng.pick(&table).clone();
    (n.to_string(), rng.pick(&vals).to_string())
}

pub fn history_steps(rng: &mut Rng, n: usize, with_touch: bool, exprs: &[usize]) -> Vec<Step> {
    let mut s = Vec::new();
    let rule_files = ["Languages/en/ClearSpeak_Rules.yaml", "Languages/en/unicode.yaml", "Languages/en/unicode-full.yaml", "Languages/en/definitions.yaml", "definitions.yaml", "Braille/Nemeth/Nemeth_Rules.yaml", "Braille/UEB/unicode.yaml", "Languages/en/SharedRules/default.yaml", "Languages/en/navigate.yaml", "Languages/en/overview.yaml", "intent.yaml", "Intent/general.yaml", "prefs.yaml", "Languages/sv/unicode.yaml", "Languages/es/ClearSpeak_Rules.yaml", "Braille/definitions.yaml"];
    for _ in 0..n {
        match rng.below(20) {
            0..=6 => {
                let (n, v) = random_pref_switch(rng);
                s.push(Step::Call(Op::SetPref(n, v)));
            }
            7..=9 => s.push(Step::Call(Op::SetMathml(if rng.chance(0.15) {
                gen_expr(rng)
            } else if rng.chance(0.2) {
                ExprRef::Corpus(rng.below(pools::corpus().len()))
            } else if rng.chance(0.9) {
                ExprRef::Pool(*rng.pick(exprs))
            } else {
                ExprRef::Bad(rng.below(pools::INVALID_EXPRS.len()))
            }))),
            10 | 11 => s.push(Step::Call(rng.pick(&[Op::Speech, Op::Braille(IdRef::Empty), Op::Overview, Op::Braille(IdRef::Nav), Op::NavBraille, Op::NavMathml]).clone())),
            12 | 13 => s.push(Step::Call(Op::Cmd(crate::props::c11::random_nav_command(rng)))),
            14 => s.push(Step::Call(Op::NodeFromPos(PosRef::Permille(rng.below(1000))))),
            15 => s.push(Step::Call(Op::BraillePos)),
            16 => {
                if with_touch {
                    s.push(Step::Env(EnvEvent::Clock { ms: *rng.pick(&[0u64, 1, 30, 2000, 3_600_000]) }));
                    s.push(Step::Env(EnvEvent::Touch { path: format!("{}/{}", MOUNT_A, rng.pick(&rule_files)) }));
                } else {
                    s.push(Step::Env(EnvEvent::Clock { ms: 500 }));
                }
            }
            17 => s.push(Step::Call(Op::SetNavNode(IdRef::Nth(rng.below(30)), 0))),
            18 => {
                if rng.chance(0.3) {
                    s.push(Step::Call(Op::SetRulesDir(rng.pick(&[MOUNT_A, MOUNT_A, MOUNT_B]).to_string())));
                }
            }
            _ => {
                let reset = rng.chance(0.75);
                s.push(checkpoint_step(rng, reset));
            }
        }
    }
    s
}

pub fn random_trace(seed: u64) -> Trace {
    let mut rng = Rng::stream(seed, "c10-workload");
    let mut t = Trace::new("C10", "C10");
    t.origin = format!("random seed={}", seed);
    t.world.lib_rand_seed = seed;
    t.world.dir_order = if rng.chance(0.3) { Some(rng.next_u64()) } else { None };
    t.world.user_config_dir = rng.chance(0.85);
    let all: Vec<usize> = (0..pools::VALID_EXPRS.len()).collect();
    let mut s: Vec<Step> = vec![Step::Call(Op::SetRulesDir(MOUNT_A.into()))];
    s.push(Step::Call(Op::SetMathml(ExprRef::Pool(rng.below(all.len())))));
    let n = rng.range(15, 90);
    let touch = rng.chance(0.5);
    s.extend(history_steps(&mut rng, n, touch, &all));
    s.push(checkpoint_step(&mut rng, true));
    s.push(checkpoint_step(&mut rng, false));
    t.sessions = vec![s];
    t
}

/// Directed: switch a preference away and back (X -> Y -> X) for every pair drawn from the file- and cache-selecting
/// preferences; output after the return must equal the output before and a fresh session's.
pub fn directed() -> Vec<Trace> {
    let mut v = Vec::new();
    let groups: Vec<(&str, Vec<&str>)> = vec![
        ("Language", vec!["en", "es", "sv", "en-gb", "zh-tw", "fi", "Auto"]),
        ("SpeechStyle", vec!["ClearSpeak", "SimpleSpeak"]),
        ("BrailleCode", vec!["Nemeth", "UEB", "CMU", "Vietnam", "LaTeX", "ASCIIMath"]),
        ("Verbosity", vec!["Terse", "Medium", "Verbose"]),
        ("TTS", vec!["None", "SSML", "SAPI5"]),
        ("DecimalSeparator", vec!["Auto", ".", ","]),
        ("BlockSeparators", vec![", \u{a0}\u{202f}", ". \u{a0}\u{202f}"]),
        ("CheckRuleFiles", vec!["Prefs", "All", "None"]),
    ];
    let exprs = [5usize, 7, 8, 10, 12, 15, 31, 38, pools::expr_brackets(), pools::expr_units()];
    for (name, vals) in &groups {
        for x in vals {
            for y in vals {
                if x == y {
                    continue;
                }
                let mut t = Trace::new("C10", "C10");
                t.origin = format!("directed away-and-back {} {}->{}->{}", name, x, y, x);
                let mut s = vec![Step::Call(Op::SetRulesDir(MOUNT_A.into())), Step::Call(Op::SetPref(name.to_string(), x.to_string()))];
                for e in exprs {
                    s.push(Step::Call(Op::SetMathml(ExprRef::Pool(e))));
                    s.push(Step::Check { kind: "checkpoint".into(), args: json!({"reset": false, "order": [0, 1, 2]}) });
                    s.push(Step::Call(Op::SetPref(name.to_string(), y.to_string())));
                    s.push(Step::Check { kind: "checkpoint".into(), args: json!({"reset": true, "order": [2, 1, 0, 0]}) });
                    s.push(Step::Call(Op::Cmd("ZoomIn".into())));
                    s.push(Step::Call(Op::NodeFromPos(PosRef::Abs(1))));
                    s.push(Step::Call(Op::SetPref(name.to_string(), x.to_string())));
                    s.push(Step::Check { kind: "checkpoint".into(), args: json!({"reset": true, "order": [1, 1, 0, 2, 0]}) });
                }
                t.sessions = vec![s];
                v.push(t);
            }
        }
    }
    // sparse away-and-back: under X only getter a is used, under Y only getter b (another one), back under X getter a first:
    // the rule sets share tables (Unicode, definitions), each keeps its own record of what it loaded
    for (name, vals) in groups.iter().filter(|(n, _)| ["Language", "SpeechStyle", "BrailleCode"].contains(n)) {
        for (xi, x) in vals.iter().enumerate() {
            for (yi, y) in vals.iter().enumerate() {
                if x == y {
                    continue;
                }
                let mut t = Trace::new("C10", "C10");
                // every second Language pair runs with file checking switched off altogether (the documented fastest setting)
                let no_checking = *name == "Language" && (xi + yi) % 2 == 1;
                t.origin = format!("directed sparse away-and-back {} {}->{}->{}{}", name, x, y, x, if no_checking { " CheckRuleFiles=None" } else { "" });
                let mut s = vec![Step::Call(Op::SetRulesDir(MOUNT_A.into())), Step::Call(Op::SetPref(name.to_string(), x.to_string()))];
                if no_checking {
                    s.push(Step::Call(Op::SetPref("CheckRuleFiles".into(), "None".into())));
                }
                for (k, e) in [5usize, pools::expr_brackets(), pools::expr_units(), 8, 12].iter().enumerate() {
                    let mut a = (xi + yi + k) % 3;
                    let mut b = (a + 1 + k % 2) % 3;
                    if *e == pools::expr_units() {
                        // speech is the getter that infers units from text (intent rules + the language's definitions)
                        a = 2;
                        b = 0;
                    }
                    s.push(Step::Call(Op::SetMathml(ExprRef::Pool(*e))));
                    s.push(Step::Check { kind: "checkpoint".into(), args: json!({"reset": false, "order": [a], "only": true}) });
                    s.push(Step::Call(Op::SetPref(name.to_string(), y.to_string())));
                    s.push(Step::Check { kind: "checkpoint".into(), args: json!({"reset": k == 1, "order": [b], "only": true}) });
                    s.push(Step::Call(Op::SetPref(name.to_string(), x.to_string())));
                    s.push(Step::Check { kind: "checkpoint".into(), args: json!({"reset": k == 2, "order": [a], "only": true}) });
                    s.push(Step::Check { kind: "checkpoint".into(), args: json!({"reset": false, "order": [b, 3 - a - b]}) });
                }
                t.sessions = vec![s];
                v.push(t);
            }
        }
    }
    // every pool expression (incl. the regression section): getters in varying order, as-is and set again, two configurations
    for (ci, cfg) in [("en", "ClearSpeak", "Nemeth"), ("es", "SimpleSpeak", "UEB"), ("vi", "ClearSpeak", "Vietnam")].iter().enumerate() {
        let mut t = Trace::new("C10", "C10");
        t.origin = format!("directed every-pool-expression {:?}", cfg);
        let mut s = vec![Step::Call(Op::SetRulesDir(MOUNT_A.into())), Step::Call(Op::SetPref("Language".into(), cfg.0.into())), Step::Call(Op::SetPref("SpeechStyle".into(), cfg.1.into())), Step::Call(Op::SetPref("BrailleCode".into(), cfg.2.into()))];
        for e in 0..pools::VALID_EXPRS.len() {
            s.push(Step::Call(Op::SetMathml(ExprRef::Pool(e))));
            let k = e + ci;
            s.push(Step::Check { kind: "checkpoint".into(), args: json!({"reset": false, "order": [k % 3, (k + 1) % 3, k % 3, (k + 2) % 3]}) });
            if e >= pools::REGRESSION_FROM {
                s.push(Step::Call(Op::Cmd("ZoomIn".into())));
                s.push(Step::Check { kind: "checkpoint".into(), args: json!({"reset": true, "order": [(k + 2) % 3, k % 3]}) });
            }
        }
        t.sessions = vec![s];
        v.push(t);
    }
    // Language=Auto / LanguageAuto flows
    let mut t = Trace::new("C10", "C10");
    t.origin = "directed language-auto-flows".into();
    let set = |n: &str, val: &str| Step::Call(Op::SetPref(n.to_string(), val.to_string()));
    let cp = || Step::Check { kind: "checkpoint".into(), args: json!({"reset": true, "order": [0, 1, 2]}) };
    t.sessions = vec![vec![
        Step::Call(Op::SetRulesDir(MOUNT_A.into())),
        Step::Call(Op::SetMathml(ExprRef::Pool(2))),
        set("Language", "sv"),
        cp(),
        set("Language", "Auto"),
        cp(),
        set("LanguageAuto", "en"),
        cp(),
        set("LanguageAuto", "es"),
        cp(),
        set("SpeechStyle", "SimpleSpeak"),
        cp(),
        Step::Call(Op::SetRulesDir(MOUNT_A.into())),
        cp(),
        set("Language", "fi"),
        cp(),
        set("Language", "Auto"),
        set("LanguageAuto", "fi"),
        cp(),
    ]];
    v.push(t);
    v
}

/// 2-3 sessions with different configurations and expressions in one world, interleaved by the seeded scheduler
pub fn multi_session_trace(seed: u64, zipped: bool) -> Trace {
    let mut rng = Rng::stream(seed, "c10-multi");
    let mut t = Trace::new("C10", "C10");
    t.origin = format!("multi-session seed={} zipped={}", seed, zipped);
    t.world.lib_rand_seed = seed;
    t.world.zipped = zipped;
    let n_sessions = rng.range(2, 3);
    t.sched = Some(Sched { seed: rng.next_u64(), p_switch_seam: *rng.pick(&[0.002, 0.01, 0.05, 0.3]) });
    let configs = [("en", "ClearSpeak", "Nemeth"), ("es", "ClearSpeak", "CMU"), ("sv", "SimpleSpeak", "Swedish"), ("en", "SimpleSpeak", "UEB"), ("zh-tw", "SimpleSpeak", "LaTeX"), ("fi", "ClearSpeak", "ASCIIMath"), ("vi", "ClearSpeak", "Vietnam")];
    let all: Vec<usize> = (0..pools::VALID_EXPRS.len()).collect();
    let mut sessions = Vec::new();
    // with the zipped layout several sessions should extract the *same* archive at about the same time
    let shared = rng.pick(&configs).clone();
    // half of the runs: every session works on the SAME expression under its own configuration (a process-wide memo that
    // forgets the language, style or code in its key shows when one session is handed what another one computed)
    let shared_expr: Option<usize> = if rng.chance(0.5) { Some(*rng.pick(&[61usize, 62, 61, 62, 7, 31, 59, 55, 50, 2, 5])) } else { None };
    for _ in 0..n_sessions {
        let c = if zipped && rng.chance(0.7) { shared } else { *rng.pick(&configs) };
        let mut s: Vec<Step> = vec![Step::Call(Op::SetRulesDir(MOUNT_A.into()))];
        s.push(Step::Call(Op::SetPref("Language".into(), c.0.into())));
        s.push(Step::Call(Op::SetPref("SpeechStyle".into(), c.1.into())));
        s.push(Step::Call(Op::SetPref("BrailleCode".into(), c.2.into())));
        s.push(Step::Call(Op::SetMathml(ExprRef::Pool(shared_expr.unwrap_or_else(|| rng.below(all.len()))))));
        s.push(Step::Call(Op::Speech));
        s.push(Step::Call(Op::Braille(IdRef::Empty)));
        s.push(Step::Call(Op::Overview));
        let n = if shared_expr.is_some() { rng.range(0, 8) } else { rng.range(4, 25) };
        let touch = !zipped && rng.chance(0.5);
        let mut h = history_steps(&mut rng, n, touch, &all);
        // a touched prefs.yaml makes every session re-read its preferences (values written by navigation commands fall
        // back to the file): that is an environment event acting on the other session's *preferences*, not a
        // dependence of its results on another session, so it is kept out of the solo-run comparison
        h.retain(|st| !matches!(st, Step::Env(EnvEvent::Touch { path }) if path.ends_with("/prefs.yaml")));
        // checkpoints against a fresh session are a single-session oracle; here the oracle is the solo run
        h.retain(|st| !matches!(st, Step::Check { .. }));
        s.extend(h);
        if let Some(e) = shared_expr {
            // ... and once more at the end, under whatever configuration the history left
            s.push(Step::Call(Op::SetMathml(ExprRef::Pool(e))));
        }
        s.push(Step::Call(Op::Speech));
        s.push(Step::Call(Op::Braille(IdRef::Empty)));
        s.push(Step::Call(Op::Overview));
        sessions.push(s);
    }
    t.sessions = sessions;
    t
}
