//! Helpers shared by the property checkers
use std::sync::OnceLock;

use serde::{Deserialize, Serialize};

use crate::exec::*;
use crate::simfs::BaseTree;
use crate::trace::*;

/// Names of all preferences: `Rules/prefs.yaml` (flattened with '_') plus the defaults hard-wired in prefs.rs
pub fn pref_names(base: &BaseTree) -> Vec<String> {
    static NAMES: OnceLock<Vec<String>> = OnceLock::new();
    NAMES
        .get_or_init(|| {
            let mut names: Vec<String> = Vec::new();
            if let Some(bytes) = base.files.get("prefs.yaml") {
                let text = String::from_utf8_lossy(bytes);
                let mut stack: Vec<(usize, String)> = Vec::new();
                for line in text.lines() {
                    let t = line.trim_start();
                    if t.is_empty() || t.starts_with('#') || t.starts_with("---") {
                        continue;
                    }
                    let indent = line.len() - t.len();
                    let Some(colon) = t.find(':') else { continue };
                    let key = t[..colon].trim();
                    if key.is_empty() || !key.chars().all(|c| c.is_ascii_alphanumeric() || c == '_') {
                        continue;
                    }
                    let rest = t[colon + 1..].trim();
                    let rest = if rest.starts_with('#') { "" } else { rest };
                    while let Some((i, _)) = stack.last() {
                        if *i >= indent {
                            stack.pop();
                        } else {
                            break;
                        }
                    }
                    if rest.is_empty() {
                        stack.push((indent, key.to_string()));
                    } else {
                        // drop the section name (Speech, Navigation, Braille, Other)
                        let mut parts: Vec<&str> = stack.iter().skip(1).map(|(_, n)| n.as_str()).collect();
                        parts.push(key);
                        names.push(parts.join("_"));
                    }
                }
            }
            for n in [
                "TTS", "Pitch", "Rate", "Volume", "Voice", "Gender", "Bookmark", "CapitalLetters_UseWord", "CapitalLetters_Pitch",
                "CapitalLetters_Beep", "IntentErrorRecovery", "CheckRuleFiles", "LanguageAuto", "Blind", "ResetOverView",
                "UEB_START_MODE", "SpeechOverrides_CapitalLetters", "DecimalSeparators", "BlockSeparators",
            ] {
                if !names.iter().any(|x| x == n) {
                    names.push(n.to_string());
                }
            }
            names
        })
        .clone()
}

#[derive(Serialize, Deserialize, Clone, Debug, PartialEq)]
pub struct Config {
    pub lang: String,
    pub style: String,
    pub code: String,
}

impl Config {
    pub fn new(lang: &str, style: &str, code: &str) -> Config {
        Config { lang: lang.into(), style: style.into(), code: code.into() }
    }
    pub fn set_steps(&self) -> Vec<Step> {
        vec![
            Step::Call(Op::SetPref("Language".into(), self.lang.clone())),
            Step::Call(Op::SetPref("SpeechStyle".into(), self.style.clone())),
            Step::Call(Op::SetPref("BrailleCode".into(), self.code.clone())),
        ]
    }
}

/// The four outputs the properties talk about, for the current expression (no re-set)
#[derive(Clone, Debug, PartialEq)]
pub struct Outputs {
    pub speech: Res,
    pub braille: Res,
    pub overview: Res,
}

pub fn read_outputs(s: &mut Sess) -> Outputs {
    Outputs { speech: s.call(&Op::Speech), braille: s.call(&Op::Braille(IdRef::Empty)), overview: s.call(&Op::Overview) }
}

pub fn norm(r: &Res) -> Res {
    match r {
        Res::Ok(s) => Res::Ok(normalize_ids(s)),
        Res::Err(s) => Res::Err(normalize_ids(s)),
        o => o.clone(),
    }
}

/// current preference values that differ from a fresh session's, ordered for the reference session
pub fn prefs_for_reference(s: &mut Sess) -> Vec<(String, String)> {
    let names = pref_names(&s.ctx.base);
    let defaults = fresh_defaults(s, &names);
    let cur = s.read_prefs(&names);
    let mut diff: Vec<(String, String)> = Vec::new();
    for (n, v) in cur {
        let is_sep = n == "DecimalSeparators" || n == "BlockSeparators";
        if is_sep || defaults.get(&n) != Some(&v) {
            diff.push((n, v));
        }
    }
    order_prefs_for_reference(&diff)
}
