//! Helpers shared by the property checkers
use std::sync::OnceLock;

use serde::{Deserialize, Serialize};

use crate::exec::*;
use crate::simfs::BaseTree;
use crate::trace::*;

/// Names of all preferences: `Rules/prefs.yaml` (flattened with '_') plus the defaults hard-wired in prefs.rs
pub fn pref_names(base: &BaseTree) -> Vec<String> {
    static NAMES: OnceLock<Vec<String>> = OnceLock::new();
    NAMES
        .get_or_init(|| {
            let mut names: Vec<String> = Vec::new();
            if let Some(bytes) = base.files.get("prefs.yaml") {
                let text = String::from_utf8_lossy(bytes);
                let mut stack: Vec<(usize, String)> = Vec::new();
                for line in text.lines() {
                    let t = line.trim_start();
                    if t.is_empty() || t.starts_with('#') || t.starts_with("---") {
                        continue;
                    }
                    let indent = line.len() - t.len();
                    let Some(colon) = t.find(':') else { continue };
                    let key = t[..colon].trim();
                    if key.is_empty() || !key.chars().all(|c| c.is_ascii_alphanumeric() || c == '_') {
                        continue;
                    }
                    let rest = t[colon + 1..].trim();
                    let rest = if rest.starts_with('#') { "" } else { rest };
                    while let Some((i, _)) = stack.last() {
                        if *i >= indent {
                            stack.pop();
                        } else {
                            break;
                        }
                    }
                    if rest.is_empty() {
                        stack.push((indent, key.to_string()));
                    } else {
                        // drop the section name (Speech, Navigation, Braille, Other)
                        let mut parts: Vec<&str> = stack.iter().skip(1).map(|(_, n)| n.as_str()).collect();
                        parts.push(key);
                        names.push(parts.join("_"));
                    }
                }
            }
            for n in [
                "TTS", "Pitch", "Rate", "Volume", "Voice", "Gender", "Bookmark", "CapitalLetters_UseWord", "CapitalLetters_Pitch",
                "CapitalLetters_Beep", "IntentErrorRecovery", "CheckRuleFiles", "LanguageAuto", "Blind", "ResetOverView",
                "UEB_START_MODE", "SpeechOverrides_CapitalLetters", "DecimalSeparators", "BlockSeparators",
            ] {
                if !names.iter().any(|x| x == n) {
                    names.push(n.to_string());
                }
            }
            names
        })
        .clone()
}

#[derive(Serialize, Deserialize, Clone, Debug, PartialEq)]
pub struct Config {
    pub lang: String,
    pub style: String,
    pub code: String,
}

impl Config {
    pub fn new(lang: &str, style: &str, code: &str) -> Config {
        Config { lang: lang.into(), style: style.into(), code: code.into() }
    }
    pub fn set_steps(&self) -> Vec<Step> {
        vec![
            Step::Call(Op::SetPref("Language".into(), self.lang.clone())),
            Step::Call(Op::SetPref("SpeechStyle".into(), self.style.clone())),
            Step::Call(Op::SetPref("BrailleCode".into(), self.code.clone())),
        ]
    }
}

/// The four outputs the properties talk about, for the current expression (no re-set)
#[derive(Clone, Debug, PartialEq)]
pub struct Outputs {
    pub speech: Res,
    pub braille: Res,
    pub overview: Res,
}

pub fn read_outputs(s: &mut Sess) -> Outputs {
    Outputs { speech: s.call(&Op::Speech), braille: s.call(&Op::Braille(IdRef::Empty)), overview: s.call(&Op::Overview) }
}

pub fn norm(r: &Res) -> Res {
    match r {
        Res::Ok(s) => Res::Ok(normalize_ids(s)),
        Res::Err(s) => Res::Err(normalize_ids(s)),
        o => o.clone(),
    }
}

/// the current preference values (all of them), ordered for the reference session, which sets those that differ from
/// what it holds itself after reading the same preference files
pub fn prefs_for_reference(s: &mut Sess) -> Vec<(String, String)> {
    let names = pref_names(&s.ctx.base);
    let mut cur = s.read_prefs(&names);
    // LanguageAuto is only looked at (and can only be set) while Language is Auto
    let language_is_auto = cur.iter().any(|(n, v)| n == "Language" && v == "Auto");
    if !language_is_auto {
        cur.retain(|(n, _)| n != "LanguageAuto");
    }
    order_prefs_for_reference(&cur)
}

/// an expression of the seeded generator (sim/src/mml.rs), with no, some or all elements carrying author ids
pub fn gen_expr(rng: &mut crate::rng::Rng) -> ExprRef {
    ExprRef::Gen { seed: rng.next_u64() % 1_000_000, ids: *rng.pick(&[0u8, 0, 1, 2]) }
}

/// A (name, value) pair for an edit of a preference in prefs.yaml: always a value that is valid for that name
/// (file contents are not validated by MathCAT; semantically wrong values in files are not what these checks are about)
pub fn valid_file_pref(rng: &mut crate::rng::Rng) -> (String, String) {
    let table: &[(&str, &[&str])] = &[
        ("Verbosity", &["Terse", "Medium", "Verbose"]),
        ("NavVerbosity", &["Terse", "Medium", "Verbose"]),
        ("BrailleNavHighlight", &["Off", "FirstChar", "EndPoints", "All"]),
        ("Language", &["Auto", "en", "sv", "es", "fi"]),
        ("SpeechStyle", &["ClearSpeak", "SimpleSpeak"]),
        ("AutoZoomOut", &["true", "false"]),
        ("Overview", &["true", "false"]),
        ("NavMode", &["Enhanced", "Simple", "Character"]),
    ];
    let (n, vals) = rng.pick(table);
    (n.to_string(), rng.pick(vals).to_string())
}
