//! C08 — no API call crashes the host; errors are reported and recoverable (history half).
use serde_json::json;

use crate::exec::*;
use crate::pools;
use crate::props::common::*;
use crate::rng::Rng;
use crate::simfs::*;
use crate::trace::*;

pub struct C08Checker {
    before_set: Option<(String, Outputs)>,
    ever_faulted: bool,
    errors_seen: u64,
    /// every accepted set_preference, in order: "a fresh session" is a new thread on the same files that is given
    /// the same successful preference calls
    accepted: Vec<(String, String)>,
    no_user_dir: bool,
}

impl C08Checker {
    pub fn new(t: &Trace, _s: usize) -> C08Checker {
        C08Checker { before_set: None, ever_faulted: false, errors_seen: 0, accepted: vec![], no_user_dir: !t.world.user_config_dir }
    }

    /// after an error the library is still usable: a valid expression set next yields what a fresh session yields
    fn recover(&mut self, s: &mut Sess, expr: &ExprRef, after: &str) {
        if s.rules_dir.is_none() || self.ever_faulted {
            // an application that got errors (or whose files were repaired) initialises again
            let _ = s.call(&Op::SetRulesDir(MOUNT_A.into()));
        }
        if self.ever_faulted {
            if !s.call(&Op::SetPref("CheckRuleFiles".into(), "All".into())).is_ok() {
                s.probe("recover_skipped_no_file_checking");
                return;
            }
            let _ = s.call(&Op::Speech); // lets the session notice repaired files (prefs.yaml is re-read here)
        }
        let Some(dir) = s.rules_dir.clone() else {
            s.probe("recover_skipped_no_rules_dir");
            return;
        };
        let set = s.call(&Op::SetMathml(expr.clone()));
        let outs = read_outputs(s);
        let prefs = prefs_for_reference(s);
        let src = s.resolve_expr(expr);
        let fs = s.world.lock().fs.clone();
        let r = reference_outputs(s, &fs, &dir, &prefs, &src);
        // the preference values the session holds must be values a fresh session accepts (otherwise an earlier call
        // left the session in a state that cannot be reached from a fresh one with the same preference values)
        if let Some((n, e)) = r.setup_errors.iter().find(|(n, _)| n != "set_rules_dir" && n != "harness") {
            let held = prefs.iter().find(|(pn, _)| pn == n).map(|(_, v)| v.clone()).unwrap_or_default();
            s.violation_g(
                "state-not-reproducible",
                format!("the session holds a value of {} that a fresh session rejects", n),
                "the session holds a preference value that a fresh session rejects".into(),
                format!("get_preference({:?}) = {:?} in the session; a fresh session answers set_preference({:?},{:?}) with {}", n, held, n, held, e),
            );
            return;
        }
        let pairs = [("set_mathml", norm(&set), norm(&r.set_mathml)), ("get_spoken_text", norm(&outs.speech), norm(&r.speech)), ("get_braille", norm(&outs.braille), norm(&r.braille)), ("get_overview_text", norm(&outs.overview), norm(&r.overview))];
        for (name, got, exp) in pairs.iter() {
            // a panic on either side is reported by the panic check; equality of two panics is not a recovery statement
            if got.is_panic() || exp.is_panic() {
                continue;
            }
            if got != exp {
                s.violation_g(
                    "recovery-mismatch",
                    format!("{} after {} differs from a fresh session", name, after),
                    format!("{} differs from a fresh session", name),
                    format!("session: {}\nfresh session: {}\npreferences given to the fresh session: {:?}\nreference set-up errors: {:?}", got.short(), exp.short(), r.applied, r.setup_errors),
                );
                return;
            }
        }
        // ... and the preference values themselves are what the files and the accepted calls imply (an error must not
        // leave a preference pinned, dropped or half-changed). Preferences MathCAT writes itself are exempt.
        if !self.ever_faulted && prefs.iter().all(|(n, v)| n != "CheckRuleFiles" || v != "None") {
            let names = pref_names(&s.ctx.base);
            let snap: std::collections::BTreeMap<String, String> = s.read_prefs(&names).into_iter().collect();
            let accepted = self.accepted.clone();
            let rp = reference_prefs(s, &fs, &dir, &accepted, &names, !self.no_user_dir);
            for (n, v) in &snap {
                if ["DecimalSeparators", "BlockSeparators", "LanguageAuto", "NavMode"].contains(&n.as_str()) {
                    continue;
                }
                if rp.get(n) != Some(v) {
                    s.violation_g(
                        "state-not-reproducible",
                        "a preference value differs from a fresh session with the same files and the same accepted set_preference calls".into(),
                        "preference differs from a fresh session with the same files and accepted calls".into(),
                        format!("{}: session {:?}, fresh session {:?}\naccepted calls replayed: {:?}", n, v, rp.get(n), accepted),
                    );
                    return;
                }
            }
            s.probe("preferences_like_fresh_session");
        }
        s.probe("recovered_like_fresh_session");
    }
}

fn err_class(op: &Op) -> String {
    match op {
        Op::SetPref(n, _) => format!("failed set_preference({})", if pools::FLOAT_PREFS.contains(&n.as_str()) { "<float pref>" } else { "<pref>" }),
        o => format!("failed {}", o.name()),
    }
}

impl Checker for C08Checker {
    fn before_step(&mut self, s: &mut Sess, step: &Step) {
        self.before_set = None;
        if let Step::Call(Op::SetMathml(_)) = step {
            if let Some(m) = s.cur_mathml.clone() {
                let o = read_outputs(s);
                self.before_set = Some((m, o));
            }
        }
    }

    fn after_call(&mut self, s: &mut Sess, op: &Op, res: &Res) {
        if res.is_err() {
            self.errors_seen += 1;
            s.probe("api_error_seen");
        }
        if let (Op::SetPref(n, v), Res::Ok(_)) = (op, res) {
            self.accepted.push((n.clone(), v.clone()));
        }
        if let (Op::SetMathml(_), Res::Err(_), Some((_, before))) = (op, res, self.before_set.clone()) {
            // (iii) a failed set_mathml keeps the previous expression and its outputs
            let after = read_outputs(s);
            for (name, a, b) in [("get_spoken_text", &before.speech, &after.speech), ("get_braille", &before.braille, &after.braille), ("get_overview_text", &before.overview, &after.overview)] {
                if a.is_ok() && norm(a) != norm(b) && !b.is_panic() && !self.ever_faulted {
                    s.violation("failed-set-mathml-changed-output", format!("{} changed by a failed set_mathml", name), format!("before: {}\nafter: {}", a.short(), b.short()));
                    break;
                }
            }
            s.probe("failed_set_mathml_checked");
        }
        let h = state_hash_of(&[op.name(), if res.is_ok() { "ok" } else if res.is_err() { "err" } else { "panic" }, &self.errors_seen.min(5).to_string(), if s.cur_mathml.is_some() { "expr" } else { "noexpr" }, if s.rules_dir.is_some() { "dir" } else { "nodir" }]);
        s.state_hash(h);
    }

    fn after_env(&mut self, _s: &mut Sess, ev: &EnvEvent, outcome: &str) {
        if let EnvEvent::Fault { .. } = ev {
            if outcome.starts_with("applied") {
                self.ever_faulted = true;
            }
        }
    }

    fn on_check(&mut self, s: &mut Sess, kind: &str, args: &serde_json::Value) {
        if kind == "recover" {
            let expr: ExprRef = serde_json::from_value(args["expr"].clone()).unwrap_or(ExprRef::Pool(2));
            let after = args["after"].as_str().unwrap_or("history").to_string();
            self.recover(s, &expr, &after);
        }
    }
}

// ---------------------------------------------------------------------------------------------------

pub fn pref_value_for(rng: &mut Rng, name: &str) -> String {
    // mostly a value that is valid for this preference, sometimes another class
    let valid: Option<&[&str]> = match name {
        "Language" | "LanguageAuto" => Some(pools::LANGUAGES),
        "SpeechStyle" => Some(pools::SPEECH_STYLES),
        "BrailleCode" => Some(pools::BRAILLE_CODES),
        "Verbosity" => Some(pools::VERBOSITY),
        "TTS" => Some(pools::TTS),
        "CheckRuleFiles" => Some(pools::CHECK_RULE_FILES),
        "NavMode" => Some(pools::NAV_MODES),
        "NavVerbosity" => Some(pools::NAV_VERBOSITY),
        "BrailleNavHighlight" => Some(pools::HIGHLIGHT),
        "DecimalSeparator" => Some(&["Auto", ".", ",", "Custom"]),
        "DecimalSeparators" => Some(&[".", ",", ".,"]),
        "BlockSeparators" => Some(&[", \u{a0}\u{202f}", ". \u{a0}\u{202f}", " ", ","]),
        "IntentErrorRecovery" => Some(&["IgnoreIntent", "Error"]),
        "UEB_START_MODE" | "UEB_StartMode" => Some(&["Grade1", "Grade2"]),
        _ => None,
    };
    let bools = ["true", "false", "True", "FALSE"];
    let nums = ["0", "1", "100", "180.0", "-3", "0.5", "1e400", "NaN", "inf", "-0", "1e20", "1e-20", "-1e20", "0.0001", "4294967296"];
    let odd = ["", " ", "Auto", "yes", "maybe", "None", "x y", "\u{a0}", "ÅÄÖ", "a-very-long-value-aaaaaaaaaaaaaaaaaaaaaaaaaaaaaaaaaaaaaaaaaaaaaaaaaaaaaaaaaaaaaaaaaaaaaaaa", "en-us-nyc", "e", "12", "[]", "*"];
    let is_float = pools::FLOAT_PREFS.contains(&name);
    match rng.below(10) {
        0..=5 => {
            if let Some(v) = valid {
                rng.pick(v).to_string()
            } else if is_float {
                rng.pick(&nums).to_string()
            } else {
                rng.pick(&bools).to_string()
            }
        }
        6 => rng.pick(&bools).to_string(),
        7 => rng.pick(&nums).to_string(),
        _ => rng.pick(&odd).to_string(),
    }
}

pub fn random_pref_name(rng: &mut Rng, names: &[String]) -> String {
    if rng.chance(0.06) {
        rng.pick(&["NoSuchPref", "", "language", "Speech", "ClearSpeak", "Braille_", "TTS "]).to_string()
    } else if rng.chance(0.45) {
        // the names that select files or feed numbers into markup are the interesting ones
        rng.pick(&[
            "Language", "LanguageAuto", "SpeechStyle", "BrailleCode", "Verbosity", "TTS", "CheckRuleFiles", "NavMode", "BrailleNavHighlight", "DecimalSeparator", "DecimalSeparators",
            "BlockSeparators", "Pitch", "Rate", "Volume", "CapitalLetters_Pitch", "MathRate", "PauseFactor", "Bookmark", "CapitalLetters_Beep", "CapitalLetters_UseWord", "Overview", "AutoZoomOut", "Blind",
            "SpeechOverrides_CapitalLetters", "IntentErrorRecovery", "UEB_START_MODE",
        ])
        .to_string()
    } else {
        rng.pick(names).clone()
    }
}

pub fn random_op(rng: &mut Rng, names: &[String]) -> Op {
    let n_valid = pools::VALID_EXPRS.len();
    match rng.below(16) {
        0 => Op::SetRulesDir(rng.pick(&[MOUNT_A, MOUNT_A, MOUNT_A, MOUNT_A, MOUNT_B, "", "/sim/nonexistent", "/sim/A/Rules/prefs.yaml", "/sim/A", "Rules", "/sim/A/Rules/../Rules"]).to_string()),
        1 => Op::GetVersion,
        2 | 3 => Op::SetMathml(match rng.below(10) {
            0..=3 => ExprRef::Pool(rng.below(n_valid)),
            4 => ExprRef::Corpus(rng.below(pools::corpus().len())),
            5 => gen_expr(rng),
            6 => ExprRef::Feedback,
            _ => ExprRef::Bad(rng.below(pools::INVALID_EXPRS.len())),
        }),
        4 => Op::Speech,
        5 => Op::Overview,
        6 => Op::GetPref(random_pref_name(rng, names)),
        7 | 8 => {
            let n = random_pref_name(rng, names);
            let v = pref_value_for(rng, &n);
            Op::SetPref(n, v)
        }
        9 => Op::Braille(random_id(rng)),
        10 => Op::NavBraille,
        11 => crate::props::c11::random_key(rng),
        12 => Op::Cmd(crate::props::c11::random_nav_command(rng)),
        13 => Op::SetNavNode(random_id(rng), *rng.pick(&[0usize, 0, 1, 3, 100])),
        14 => match rng.below(3) {
            0 => Op::NavMathml,
            1 => Op::NavId,
            _ => Op::BraillePos,
        },
        _ => Op::NodeFromPos(match rng.below(4) {
            0 => PosRef::Abs(rng.below(5)),
            1 => PosRef::LenPlus(rng.below(3)),
            2 => PosRef::Abs(usize::MAX),
            _ => PosRef::Permille(rng.below(1000)),
        }),
    }
}

pub fn random_id(rng: &mut Rng) -> IdRef {
    match rng.below(10) {
        0..=4 => IdRef::Nth(rng.below(40)),
        5 => IdRef::Stale(rng.below(10)),
        6 => IdRef::Nav,
        7 => IdRef::Empty,
        8 => IdRef::Lit("no-such-id".into()),
        _ => IdRef::Lit("'\"<&>".into()),
    }
}

fn recover_step(rng: &mut Rng, after: &str) -> Step {
    Step::Check { kind: "recover".into(), args: json!({"expr": ExprRef::Pool(*rng.pick(&[2usize, 3, 5, 8, 10, 12, 18, 38])), "after": after}) }
}

pub fn random_trace(seed: u64, names: &[String], fault_files: &[String]) -> Trace {
    let mut rng = Rng::stream(seed, "c08-workload");
    let mut t = Trace::new("C08", "C08");
    t.origin = format!("random seed={}", seed);
    t.world.lib_rand_seed = seed;
    t.world.user_config_dir = rng.chance(0.8);
    let mut s: Vec<Step> = Vec::new();
    // most sessions initialise first; some deliberately do not
    if rng.chance(0.85) {
        s.push(Step::Call(Op::SetRulesDir(MOUNT_A.into())));
    }
    let with_faults = rng.chance(0.2) && !fault_files.is_empty();
    if with_faults && rng.chance(0.7) {
        s.push(Step::Call(Op::SetPref("CheckRuleFiles".into(), "All".into())));
    }
    let n = rng.range(5, 120);
    let mut since_recover = 0;
    let with_pref_files = !with_faults && rng.chance(0.12);
    for _ in 0..n {
        if with_pref_files && rng.chance(0.05) {
            s.push(Step::Env(EnvEvent::Clock { ms: rng.range(1, 5000) as u64 }));
            // one to three changes before the session makes its next call (it sees them all at once)
            for _ in 0..rng.range(1, 3) {
                let ev = match rng.below(3) {
                    0 => EnvEvent::Touch { path: format!("{}/prefs.yaml", MOUNT_A) },
                    1 => {
                        let language = if rng.chance(0.3) { format!("    Language: {}\n", rng.pick(&["en", "es", "sv", "Auto"])) } else { String::new() };
                        EnvEvent::WriteUserPrefs { content: format!("---\n  Speech:\n{}    Verbosity: {}\n    SpeechStyle: {}\n  Braille:\n    BrailleCode: \"{}\"\n", language, rng.pick(pools::VERBOSITY), rng.pick(pools::SPEECH_STYLES), rng.pick(&["Nemeth", "UEB", "CMU"])) }
                    }
                    _ => {
                        let (name, value) = valid_file_pref(&mut rng);
                        EnvEvent::EditSysPref { mount: MOUNT_A.into(), name, value }
                    }
                };
                s.push(Step::Env(ev));
            }
            continue;
        }
        if with_faults && rng.chance(0.04) {
            let f = rng.pick(fault_files).clone();
            let kinds = crate::faults::file_fault_kinds();
            s.push(Step::Env(EnvEvent::Clock { ms: rng.range(1, 5000) as u64 }));
            s.push(Step::Env(EnvEvent::Fault { path: f, kind: rng.pick(&kinds).clone() }));
            continue;
        }
        let op = random_op(&mut rng, names);
        let class = err_class(&op);
        s.push(Step::Call(op));
        since_recover += 1;
        if since_recover >= 8 && rng.chance(0.12) {
            if with_faults {
                s.push(Step::Env(EnvEvent::Clock { ms: 2000 }));
                s.push(Step::Env(EnvEvent::RepairAll));
            }
            s.push(recover_step(&mut rng, &class));
            since_recover = 0;
        }
    }
    if with_faults {
        s.push(Step::Env(EnvEvent::Clock { ms: 2000 }));
        s.push(Step::Env(EnvEvent::RepairAll));
    }
    s.push(recover_step(&mut rng, "history"));
    t.sessions = vec![s];
    t
}

/// Directed: every entry point as the first call of a session; every entry point right after each class of error;
/// every preference name x value class.
pub fn directed(names: &[String]) -> Vec<Trace> {
    let mut v = Vec::new();
    let all_ops = |_i: usize| -> Vec<Op> {
        vec![
            Op::GetVersion,
            Op::SetMathml(ExprRef::Pool(2)),
            Op::Speech,
            Op::Overview,
            Op::GetPref("Language".into()),
            Op::SetPref("Verbosity".into(), "Terse".into()),
            Op::Braille(IdRef::Empty),
            Op::Braille(IdRef::Lit("x".into())),
            Op::NavBraille,
            Op::Key { key: 0x27, shift: false, ctrl: false, alt: false, meta: false },
            Op::Cmd("MoveNext".into()),
            Op::Cmd("MoveLastLocation".into()),
            Op::SetNavNode(IdRef::Lit("x".into()), 0),
            Op::NavMathml,
            Op::NavId,
            Op::BraillePos,
            Op::NodeFromPos(PosRef::Abs(0)),
            Op::NodeFromPos(PosRef::Abs(7)),
        ]
    };
    let mk = |name: String, steps: Vec<Step>| {
        let mut t = Trace::new("C08", "C08");
        t.origin = format!("directed {}", name);
        t.sessions = vec![steps];
        t
    };
    let rec = |after: &str| Step::Check { kind: "recover".into(), args: json!({"expr": ExprRef::Pool(2), "after": after}) };
    // 1. every entry point as the first call, and as the first call after set_rules_dir only
    for (i, op) in all_ops(0).into_iter().enumerate() {
        v.push(mk(format!("first-call-{}-{}", i, op.name()), vec![Step::Call(op.clone()), rec(&format!("first call {}", op.name()))]));
        v.push(mk(format!("after-init-{}-{}", i, op.name()), vec![Step::Call(Op::SetRulesDir(MOUNT_A.into())), Step::Call(op.clone()), rec(&format!("first call {}", op.name()))]));
    }
    // 2. every entry point immediately after each class of error
    let error_makers: Vec<(&str, Vec<Op>)> = vec![
        ("failed set_mathml (not xml)", vec![Op::SetRulesDir(MOUNT_A.into()), Op::SetMathml(ExprRef::Bad(1))]),
        ("failed set_mathml (unknown entity)", vec![Op::SetRulesDir(MOUNT_A.into()), Op::SetMathml(ExprRef::Pool(2)), Op::SetMathml(ExprRef::Bad(5))]),
        ("empty math", vec![Op::SetRulesDir(MOUNT_A.into()), Op::SetMathml(ExprRef::Bad(6))]),
        ("failed set_rules_dir", vec![Op::SetRulesDir("/sim/nonexistent".into())]),
        ("failed set_rules_dir after a good one", vec![Op::SetRulesDir(MOUNT_A.into()), Op::SetMathml(ExprRef::Pool(3)), Op::SetRulesDir("/sim/A/Rules/prefs.yaml".into())]),
        ("failed set_preference", vec![Op::SetRulesDir(MOUNT_A.into()), Op::SetMathml(ExprRef::Pool(3)), Op::SetPref("Language".into(), "e".into())]),
        ("failed set_preference (language directory without rule files)", vec![Op::SetRulesDir(MOUNT_A.into()), Op::SetMathml(ExprRef::Pool(3)), Op::SetPref("Language".into(), "zh".into())]),
        ("failed set_preference (LanguageAuto while Language is not Auto)", vec![Op::SetRulesDir(MOUNT_A.into()), Op::SetPref("Language".into(), "es".into()), Op::SetMathml(ExprRef::Pool(3)), Op::SetPref("LanguageAuto".into(), "sv".into())]),
        ("failed navigation", vec![Op::SetRulesDir(MOUNT_A.into()), Op::SetMathml(ExprRef::Pool(0)), Op::Cmd("NoSuchCommand".into()), Op::Cmd("MoveCellUp".into())]),
        ("failed set_navigation_node", vec![Op::SetRulesDir(MOUNT_A.into()), Op::SetMathml(ExprRef::Pool(3)), Op::SetNavNode(IdRef::Lit("nope".into()), 2)]),
    ];
    for (ename, pre) in &error_makers {
        for (i, op) in all_ops(0).into_iter().enumerate() {
            let mut steps: Vec<Step> = pre.iter().cloned().map(Step::Call).collect();
            steps.push(Step::Call(op.clone()));
            steps.push(rec(ename));
            v.push(mk(format!("after-error-{}-{}-{}", ename, i, op.name()), steps));
        }
    }
    // 2b. the failing call made again (same answer expected: an error leaves nothing behind), then recovery
    for (ename, pre) in &error_makers {
        let mut steps: Vec<Step> = pre.iter().cloned().map(Step::Call).collect();
        if let Some(last) = pre.last() {
            steps.push(Step::Call(last.clone()));
            steps.push(Step::Call(last.clone()));
        }
        steps.push(rec(ename));
        v.push(mk(format!("error-repeated-{}", ename), steps));
    }
    // 2c. failed preference requests, then the preference files change those very preferences, then recovery
    {
        let mut steps = vec![Step::Call(Op::SetRulesDir(MOUNT_A.into())), Step::Call(Op::SetMathml(ExprRef::Pool(3)))];
        for (n, val) in [("Language", "zh"), ("AutoZoomOut", "maybe"), ("Overview", "yes"), ("BrailleCode", "NoSuchCode"), ("LanguageAuto", "Auto")] {
            steps.push(Step::Call(Op::SetPref(n.into(), val.into())));
        }
        steps.push(Step::Env(EnvEvent::Clock { ms: 1000 }));
        for (n, val) in [("Language", "es"), ("AutoZoomOut", "false"), ("Overview", "true"), ("BrailleCode", "\"UEB\"")] {
            steps.push(Step::Env(EnvEvent::EditSysPref { mount: MOUNT_A.into(), name: n.into(), value: val.into() }));
        }
        steps.push(rec("failed set_preference followed by a change of the preference files"));
        v.push(mk("failed-sets-then-pref-files-change".into(), steps));
    }
    // 2d. the preference files change several file-selecting preferences at once (the session sees one re-read), also while
    //     LanguageAuto (held by the API only) names the language in use
    for (name, pre_sets, edits) in [
        ("language-and-style", vec![], vec![("Language", "es"), ("SpeechStyle", "SimpleSpeak")]),
        ("language-style-and-braille-code", vec![], vec![("Language", "sv"), ("SpeechStyle", "SimpleSpeak"), ("BrailleCode", "\"UEB\"")]),
        ("style-while-languageauto", vec![("LanguageAuto", "es")], vec![("SpeechStyle", "SimpleSpeak")]),
        ("language-to-auto-while-languageauto", vec![("Language", "sv"), ("Language", "Auto"), ("LanguageAuto", "es"), ("Language", "sv")], vec![("Language", "Auto"), ("SpeechStyle", "SimpleSpeak")]),
        ("verbosity-and-style", vec![("Verbosity", "Terse")], vec![("Verbosity", "Verbose"), ("SpeechStyle", "SimpleSpeak")]),
    ] {
        let mut steps = vec![Step::Call(Op::SetRulesDir(MOUNT_A.into()))];
        for (n, val) in pre_sets {
            steps.push(Step::Call(Op::SetPref(n.into(), val.into())));
        }
        steps.push(Step::Call(Op::SetMathml(ExprRef::Pool(3))));
        steps.push(Step::Call(Op::Speech));
        steps.push(Step::Env(EnvEvent::Clock { ms: 1000 }));
        for (n, val) in edits {
            steps.push(Step::Env(EnvEvent::EditSysPref { mount: MOUNT_A.into(), name: n.into(), value: val.into() }));
        }
        steps.push(rec("a change of several preferences in the preference files"));
        v.push(mk(format!("pref-files-change-{}", name), steps));
    }
    // 2g. a user preference file exists (a normal deployment) and initialisation goes wrong in different ways
    {
        let user = || Step::Env(EnvEvent::WriteUserPrefs { content: "---\n  Speech:\n    Verbosity: Terse\n    SpeechStyle: SimpleSpeak\n  Braille:\n    BrailleCode: \"UEB\"\n".into() });
        let sets = || vec![Step::Call(Op::SetPref("NavMode".into(), "Simple".into())), Step::Call(Op::SetPref("Verbosity".into(), "Verbose".into())), Step::Call(Op::SetPref("TTS".into(), "SSML".into())), Step::Call(Op::SetPref("Language".into(), "es".into()))];
        for (name, pre) in [
            ("getter-before-init", vec![Step::Call(Op::Speech)]),
            ("init-parent-of-rules", vec![Step::Call(Op::SetRulesDir("/sim/A".into()))]),
            ("good-init-then-parent-of-rules", vec![Step::Call(Op::SetRulesDir(MOUNT_A.into())), Step::Call(Op::SetMathml(ExprRef::Pool(3))), Step::Call(Op::SetRulesDir("/sim/A".into()))]),
            ("good-init-then-a-file", vec![Step::Call(Op::SetRulesDir(MOUNT_A.into())), Step::Call(Op::SetRulesDir("/sim/A/Rules/prefs.yaml".into()))]),
            ("set-preference-before-init", vec![Step::Call(Op::SetPref("Rate".into(), "200".into()))]),
        ] {
            let mut steps = vec![user()];
            steps.extend(pre);
            steps.extend(sets());
            steps.push(Step::Call(Op::Speech));
            steps.push(rec("a wrong initialisation while a user preference file exists"));
            v.push(mk(format!("user-prefs-file-{}", name), steps));
        }
    }
    // 2f. every pool expression (incl. the regression section) through every output, navigation and routing call, under
    //     every braille code; and its own output fed back
    for (ci, code) in pools::BRAILLE_CODES.iter().enumerate() {
        let mut steps = vec![Step::Call(Op::SetRulesDir(MOUNT_A.into())), Step::Call(Op::SetPref("BrailleCode".into(), code.to_string()))];
        if ci % 2 == 1 {
            steps.push(Step::Call(Op::SetPref("SpeechStyle".into(), "SimpleSpeak".into())));
        }
        if ci % 3 == 2 {
            steps.push(Step::Call(Op::SetPref("TTS".into(), "SSML".into())));
            steps.push(Step::Call(Op::SetPref("Bookmark".into(), "true".into())));
        }
        for e in 0..pools::VALID_EXPRS.len() {
            steps.push(Step::Call(Op::SetMathml(ExprRef::Pool(e))));
            steps.push(Step::Call(Op::Speech));
            steps.push(Step::Call(Op::Braille(IdRef::Empty)));
            steps.push(Step::Call(Op::Overview));
            steps.push(Step::Call(Op::Cmd("ZoomIn".into())));
            steps.push(Step::Call(Op::NavBraille));
            steps.push(Step::Call(Op::Cmd("MoveNext".into())));
            steps.push(Step::Call(Op::Braille(IdRef::Nav)));
            steps.push(Step::Call(Op::BraillePos));
            steps.push(Step::Call(Op::NodeFromPos(PosRef::Abs(1))));
            steps.push(Step::Call(Op::Cmd("DescribeCurrent".into())));
            if e >= pools::REGRESSION_FROM || e % 4 == ci % 4 {
                steps.push(Step::Call(Op::SetMathml(ExprRef::Feedback)));
                steps.push(Step::Call(Op::Speech));
                steps.push(Step::Call(Op::Braille(IdRef::Empty)));
            }
        }
        v.push(mk(format!("every-pool-expression-{}", code), steps));
    }
    // 2f'. the same walk (outputs only) under the non-default values of each braille code's own preferences
    for (vi, (code, prefs)) in pools::BRAILLE_VARIANTS.iter().enumerate() {
        let mut steps = vec![Step::Call(Op::SetRulesDir(MOUNT_A.into())), Step::Call(Op::SetPref("BrailleCode".into(), code.to_string()))];
        for (n, val) in prefs.iter() {
            steps.push(Step::Call(Op::SetPref(n.to_string(), val.to_string())));
        }
        for e in 0..pools::VALID_EXPRS.len() {
            steps.push(Step::Call(Op::SetMathml(ExprRef::Pool(e))));
            steps.push(Step::Call(Op::Braille(IdRef::Empty)));
            steps.push(Step::Call(Op::Cmd("ZoomIn".into())));
            steps.push(Step::Call(Op::NavBraille));
            steps.push(Step::Call(Op::BraillePos));
            steps.push(Step::Call(Op::NodeFromPos(PosRef::Abs(2))));
        }
        v.push(mk(format!("every-pool-expression-variant-{}-{}", vi, code), steps));
    }
    // 2e. every documented value of the style preferences over expressions that stress the places where they are consulted
    //     (number words for huge numbers, fractions, roots, powers, tables, sets, primes, chemistry); both speech styles
    for style in pools::SPEECH_STYLES {
        for (n, vals) in pools::CLEARSPEAK_VALUES {
            let mut steps = vec![Step::Call(Op::SetRulesDir(MOUNT_A.into())), Step::Call(Op::SetPref("SpeechStyle".into(), style.to_string()))];
            for val in vals.iter().chain(["Auto"].iter()) {
                steps.push(Step::Call(Op::SetPref(n.to_string(), val.to_string())));
                for e in [63usize, 61, 62, 10, 54, 11, 2, 7, 18, 59, 3, 55] {
                    steps.push(Step::Call(Op::SetMathml(ExprRef::Pool(e))));
                    steps.push(Step::Call(Op::Speech));
                    steps.push(Step::Call(Op::Overview));
                }
                steps.push(Step::Call(Op::Cmd("ZoomIn".into())));
                steps.push(Step::Call(Op::Cmd("DescribeCurrent".into())));
            }
            v.push(mk(format!("documented-values-{}-{}", style, n), steps));
        }
    }
    // 3. every preference name x value class (one trace per name; a panic anywhere is the violation)
    let values = ["true", "FALSE", "1.5", "NaN", "", " ", "Auto", "maybe", "\u{a0}", "0", "-1e400", "[]"];
    for n in names.iter().chain(["NoSuchPref".to_string(), "".to_string()].iter()) {
        let mut steps = vec![Step::Call(Op::SetRulesDir(MOUNT_A.into())), Step::Call(Op::SetMathml(ExprRef::Pool(5)))];
        for val in values {
            steps.push(Step::Call(Op::SetPref(n.clone(), val.to_string())));
            steps.push(Step::Call(Op::GetPref(n.clone())));
            // the value may be consumed only later, by an unrelated call
            steps.push(Step::Call(Op::SetMathml(ExprRef::Pool(5))));
            steps.push(Step::Call(Op::Speech));
            steps.push(Step::Call(Op::Braille(IdRef::Nth(2))));
            steps.push(Step::Call(Op::Cmd("ZoomIn".into())));
            steps.push(Step::Call(Op::NodeFromPos(PosRef::Abs(1))));
        }
        // ... and under both speech engines
        for tts in ["SSML", "SAPI5"] {
            steps.push(Step::Call(Op::SetPref("TTS".into(), tts.into())));
            steps.push(Step::Call(Op::Speech));
            steps.push(Step::Call(Op::Cmd("MoveNext".into())));
        }
        v.push(mk(format!("pref-values-{}", n), steps));
    }
    // 4. a rule file of ANOTHER language / braille code is broken; the session switches into it (the load fails once or
    //    reads odd content), keeps calling, switches back, the file is repaired: nothing may panic at any point, whatever
    //    CheckRuleFiles says (with the default 'Prefs' a failed load is never retried because of time stamps), and the
    //    session must afterwards behave like a fresh one
    let targets: [(&str, &str, &[&str]); 2] = [
        ("Language", "es", &["Languages/es/definitions.yaml", "Languages/es/unicode.yaml", "Languages/es/ClearSpeak_Rules.yaml", "Languages/es/navigate.yaml", "Languages/es/overview.yaml", "Languages/es/unicode-full.yaml"]),
        ("BrailleCode", "CMU", &["Braille/CMU/CMU_Rules.yaml", "Braille/CMU/unicode.yaml", "Braille/CMU/definitions.yaml", "Braille/CMU/unicode-full.yaml"]),
    ];
    let kinds = [FaultKind::Empty, FaultKind::WrongTopType, FaultKind::Deleted, FaultKind::InvalidXpath(0), FaultKind::TruncBytes(500), FaultKind::WrongInnerShape];
    for (pref, value, files) in targets {
        for file in files {
            for kind in &kinds {
                for check in ["Prefs", "All"] {
                    let mut steps = vec![Step::Call(Op::SetRulesDir(MOUNT_A.into())), Step::Call(Op::SetPref("CheckRuleFiles".into(), check.into()))];
                    steps.push(Step::Call(Op::SetMathml(ExprRef::Pool(pools::EXPR_NEEDS_FULL_UNICODE))));
                    steps.push(Step::Call(Op::Speech));
                    steps.push(Step::Call(Op::Braille(IdRef::Empty)));
                    steps.push(Step::Env(EnvEvent::Clock { ms: 1000 }));
                    steps.push(Step::Env(EnvEvent::Fault { path: format!("{}/{}", MOUNT_A, file), kind: kind.clone() }));
                    steps.push(Step::Call(Op::SetPref(pref.into(), value.into())));
                    for _ in 0..2 {
                        steps.push(Step::Call(Op::SetMathml(ExprRef::Pool(pools::EXPR_NEEDS_FULL_UNICODE))));
                        steps.push(Step::Call(Op::Speech));
                        steps.push(Step::Call(Op::Braille(IdRef::Empty)));
                        steps.push(Step::Call(Op::Overview));
                        steps.push(Step::Call(Op::Cmd("ZoomIn".into())));
                        steps.push(Step::Call(Op::NodeFromPos(PosRef::Abs(1))));
                    }
                    steps.push(Step::Env(EnvEvent::Clock { ms: 1000 }));
                    steps.push(Step::Env(EnvEvent::RepairAll));
                    // first the calls an application makes anyway, THEN the recovery comparison
                    steps.push(Step::Call(Op::SetPref("Verbosity".into(), "Terse".into())));
                    steps.push(Step::Call(Op::SetMathml(ExprRef::Pool(2))));
                    steps.push(Step::Call(Op::Speech));
                    steps.push(Step::Call(Op::SetPref(pref.into(), if pref == "Language" { "en".into() } else { "Nemeth".into() })));
                    steps.push(Step::Call(Op::SetMathml(ExprRef::Pool(2))));
                    steps.push(Step::Call(Op::Speech));
                    steps.push(Step::Call(Op::Braille(IdRef::Empty)));
                    steps.push(Step::Check { kind: "recover".into(), args: json!({"expr": ExprRef::Pool(5), "after": "file-fault"}) });
                    v.push(mk(format!("switch-into-broken-{}-{}-{}", file.rsplit('/').next().unwrap_or(file), crate::faults::kind_name(kind), check), steps));
                }
            }
        }
    }
    v
}
