//! C09 — every node gets a unique id; ids handed out later belong to the current expression
//! (history half + the clock/randomness dependence of the id prefix).
use regex::Regex;
use std::collections::HashSet;
use std::sync::OnceLock;

use crate::exec::*;
use crate::pools;
use crate::rng::Rng;
use crate::simfs::*;
use crate::trace::*;

pub struct C09Checker {
    input_has_duplicate_author_ids: bool,
}

fn marks_in(speech: &str) -> Vec<String> {
    static RE: OnceLock<Regex> = OnceLock::new();
    let re = RE.get_or_init(|| Regex::new(r"<(?:mark name|bookmark mark)='([^']*)'/>").unwrap());
    re.captures_iter(speech).map(|c| c[1].to_string()).collect()
}

/// the part of a token's text that survives canonicalization verbatim: no white space, no invisible operators, math
/// alphanumerics (what a mathvariant turns letters and digits into) folded back to the plain characters, the ASCII
/// variants of minus, primes, tilde etc. mapped to the characters MathCAT uses
fn carried_text(t: &str) -> String {
    t.chars().filter(|c| !c.is_whitespace() && !matches!(*c, '\u{2061}'..='\u{2064}' | '\u{a0}' | '\u{202f}' | '\u{200b}')).map(fold_char).collect()
}

fn fold_char(c: char) -> char {
    let cp = c as u32;
    match cp {
        0x1D400..=0x1D6A3 => {
            let i = (cp - 0x1D400) % 52;
            char::from_u32(if i < 26 { 'A' as u32 + i } else { 'a' as u32 + i - 26 }).unwrap_or(c)
        }
        0x1D6A4 => 'i',
        0x1D6A5 => 'j',
        0x1D6A8..=0x1D7C9 => {
            let i = (cp - 0x1D6A8) % 58;
            match i {
                17 => '\u{3f4}',
                0..=24 => char::from_u32(0x391 + i).unwrap_or(c),
                25 => '\u{2207}',
                26..=50 => char::from_u32(0x3b1 + i - 26).unwrap_or(c),
                51 => '\u{2202}',
                52 => '\u{3f5}',
                53 => '\u{3d1}',
                54 => '\u{3f0}',
                55 => '\u{3d5}',
                56 => '\u{3f1}',
                _ => '\u{3d6}',
            }
        }
        0x1D7CE..=0x1D7FF => char::from_u32('0' as u32 + (cp - 0x1D7CE) % 10).unwrap_or(c),
        _ => match c {
            '-' => '\u{2212}',
            '\'' => '\u{2032}',
            '\u{210e}' => 'h',
            '\u{212c}' => 'B',
            '\u{2130}' => 'E',
            '\u{2131}' => 'F',
            '\u{210b}' | '\u{210c}' | '\u{210d}' => 'H',
            '\u{2110}' | '\u{2111}' => 'I',
            '\u{2112}' => 'L',
            '\u{2133}' => 'M',
            '\u{211b}' | '\u{211c}' | '\u{211d}' => 'R',
            '\u{212f}' => 'e',
            '\u{210a}' => 'g',
            '\u{2134}' => 'o',
            '\u{212d}' | '\u{2102}' => 'C',
            '\u{2128}' | '\u{2124}' => 'Z',
            '\u{2115}' => 'N',
            '\u{2119}' => 'P',
            '\u{211a}' => 'Q',
            c => c,
        },
    }
}

/// the elements of a subtree that canonicalization keeps: not the content of mphantom, not annotations, not maction
/// alternatives (only the selected one is kept; which one is not this check's business)
fn kept_elements(e: &crate::mml::El) -> Vec<&crate::mml::El> {
    let mut v = vec![e];
    if matches!(e.name.as_str(), "mphantom" | "annotation" | "annotation-xml" | "maction") {
        return v;
    }
    for k in &e.kids {
        if let crate::mml::Node::El(c) = k {
            if !matches!(c.name.as_str(), "mphantom" | "annotation" | "annotation-xml" | "maction") {
                v.extend(kept_elements(c));
            }
        }
    }
    v
}

fn duplicates(ids: &[String]) -> Vec<String> {
    let mut seen = HashSet::new();
    let mut d = Vec::new();
    for i in ids {
        if !seen.insert(i.clone()) && !d.contains(i) {
            d.push(i.clone());
        }
    }
    d
}

impl C09Checker {
    pub fn new(_t: &Trace, _s: usize) -> C09Checker {
        C09Checker { input_has_duplicate_author_ids: false }
    }

    fn check_handed_out(&mut self, s: &mut Sess, what: &str, ids: &[String]) {
        for id in ids {
            if !s.cur_ids.contains(id) {
                s.violation(
                    "foreign-id-handed-out",
                    format!("{} names an id that is not in the current expression", what),
                    format!("id '{}' is not among the ids of the MathML returned by the last successful set_mathml: {:?}", id, s.cur_ids),
                );
                return;
            }
        }
        if !ids.is_empty() {
            s.probe("handed_out_id_checked");
        }
    }

    /// an author id on a token or a 2-D element stays on the element carrying that token's text
    fn check_author_ids(&mut self, s: &mut Sess, src: &str, out: &str) {
        let (Some(input), Some(output)) = (crate::mml::parse(src), crate::mml::parse(out.trim())) else {
            s.probe("author_id_check_skipped_unparsed");
            return;
        };
        let out_els = output.elements();
        let out_text = carried_text(&output.text());
        let mut checked = 0;
        // what canonicalization keeps: not the content of mphantom, annotations, or the unselected children of maction
        for e in kept_elements(&input) {
            let Some(id) = e.attr("id") else { continue };
            if e.name == "math" {
                continue;
            }
            let two_d = matches!(e.name.as_str(), "mfrac" | "msqrt" | "mroot" | "msup" | "msub" | "msubsup" | "munder" | "mover" | "munderover" | "mmultiscripts" | "mtable" | "mtr" | "mtd" | "mlabeledtr" | "menclose");
            if !(e.is_token() || two_d) {
                continue;
            }
            // the texts whose identity is unambiguous: identifiers, numbers and words (operators are re-spelled by
            // canonicalization: "..." -> "…", "~" -> "∼", "_" -> "¯", "''" -> "″", "||" -> "‖")
            // (a negative number is split into the sign and the number: the number is the text that matters)
            let words: Vec<String> = if e.is_token() { vec![carried_text(&e.text()).trim_start_matches('\u{2212}').to_string()] } else { kept_elements(e).iter().filter(|t| t.is_token()).map(|t| carried_text(&t.text())).collect() };
            let words: Vec<String> = words.into_iter().filter(|w| w.chars().any(|c| c.is_alphanumeric()) && w.chars().all(|c| c.is_alphanumeric() || matches!(c, '.' | ',' | '\u{2212}'))).collect();
            if words.is_empty() {
                continue;
            }
            let holders: Vec<&&crate::mml::El> = out_els.iter().filter(|o| o.attr("id") == Some(id)).collect();
            if holders.is_empty() {
                // merged into a neighbour (s,i,n -> sin; 1 , 234 -> 1,234), or a wrapper without scripts: the text lives on
                // under another id. Gone altogether = the content the id was on was lost
                let in_one_token = out_els.iter().any(|o| o.is_token() && carried_text(&o.text()).contains(&words[0]));
                // merged = the word is a proper part of a longer token (s,i,n -> sin; 1 , 234 -> 1,234). A token with exactly
                // this text under another id is not a merge: the id was replaced (e.g. by the id of a wrapper that went away)
                let merged = out_els.iter().any(|o| o.is_token() && {
                    let t = carried_text(&o.text());
                    t.contains(&words[0]) && t.chars().count() > words[0].chars().count()
                });
                if e.is_token() && in_one_token && !merged {
                    s.violation_g(
                        "author-id-replaced",
                        format!("the author id of a <{}> token is gone although the token is still there (under another id)", e.name),
                        "author id of a surviving token replaced".into(),
                        format!("id {:?} on <{}>{}</{}>\ninput: {}\nreturned: {}", id, e.name, e.text(), e.name, first_line(src, 600), first_line(&normalize_ids(out).replace('\n', ""), 900)),
                    );
                    return;
                }
                if e.is_token() && out_text.contains(&words[0]) && !in_one_token {
                    s.violation_g(
                        "author-id-dropped",
                        format!("the author id of a <{}> token that was split is on none of the returned elements", e.name),
                        "author id dropped when its token was split".into(),
                        format!("id {:?} on <{}>{}</{}>\ninput: {}\nreturned: {}", id, e.name, e.text(), e.name, first_line(src, 600), first_line(&normalize_ids(out).replace('\n', ""), 900)),
                    );
                    return;
                }
                if e.is_token() && !out_text.contains(&words[0]) {
                    s.violation_g(
                        "author-id-lost",
                        format!("the <{}> token carrying an author id is not in the returned MathML at all (neither the id nor its text)", e.name),
                        "an element with an author id disappeared with its text".into(),
                        format!("id {:?} on <{}>{}</{}>\ninput: {}\nreturned: {}", id, e.name, e.text(), e.name, first_line(src, 600), first_line(&normalize_ids(out).replace('\n', ""), 600)),
                    );
                    return;
                }
                s.probe(if e.is_token() { "author_id_of_token_absent" } else { "author_id_of_2d_absent" });
                continue;
            }
            let have = carried_text(&holders[0].text());
            if let Some(w) = words.iter().find(|w| !have.contains(w.as_str())) {
                s.violation_g(
                    "author-id-moved",
                    format!("an author id of a <{}> is returned on an element that does not carry its text", e.name),
                    "author id on an element without its text".into(),
                    format!("id {:?}: input <{}> with text {:?}; returned on <{}> with text {:?} (missing {:?})\ninput: {}\nreturned: {}", id, e.name, e.text(), holders[0].name, holders[0].text(), w, first_line(src, 600), first_line(&normalize_ids(out).replace('\n', ""), 600)),
                );
                return;
            }
            checked += 1;
        }
        if checked > 0 {
            s.probe("author_id_on_its_text");
        }
    }

    fn check_nav(&mut self, s: &mut Sess, what: &str) {
        if s.cur_ids.is_empty() {
            return;
        }
        if let Res::Ok(v) = s.call(&Op::NavId) {
            let (id, _) = split_pair(&v);
            self.check_handed_out(s, &format!("the navigation position after {}", what), &[id.clone()]);
            match s.call(&Op::NavMathml) {
                Res::Ok(m) => {
                    let (mml, _) = split_pair(&m);
                    let first = extract_ids(&mml).into_iter().next().unwrap_or_default();
                    if first != id {
                        s.violation("nav-mathml-mismatch", format!("get_navigation_mathml does not carry the navigation id after {}", what), format!("navigation id '{}', root id of returned MathML '{}'", id, first));
                    }
                }
                Res::Err(e) => {
                    if s.cur_ids.contains(&id) {
                        s.violation("nav-mathml-unavailable", format!("get_navigation_mathml fails after {}", what), first_line(&e, 200));
                    }
                }
                _ => {}
            }
        }
    }
}

impl Checker for C09Checker {
    fn after_call(&mut self, s: &mut Sess, op: &Op, res: &Res) {
        match (op, res) {
            (Op::SetMathml(_), Res::Ok(out)) => {
                let src = s.cur_src.clone().unwrap_or_default();
                let input_ids = extract_ids(&src);
                self.input_has_duplicate_author_ids = !duplicates(&input_ids).is_empty();
                let n_el = count_elements(out);
                let ids = extract_ids(out);
                if ids.len() != n_el {
                    s.violation("element-without-id", "an element of the returned MathML has no id".into(), format!("{} elements, {} id attributes in {}", n_el, ids.len(), first_line(out.trim(), 200)));
                    return;
                }
                let dups = duplicates(&ids);
                if !dups.is_empty() {
                    let prefix_collision = dups.iter().any(|d| d.starts_with('M') && d.contains('-'));
                    if self.input_has_duplicate_author_ids {
                        s.violation("duplicate-ids", "duplicate author ids in the input are returned duplicated".into(), format!("ids {:?} occur more than once in the returned MathML", dups));
                    } else if prefix_collision && input_ids.iter().any(|i| dups.contains(i)) {
                        s.violation("duplicate-ids", "a generated id collides with an id already present in the input".into(), format!("ids {:?} occur more than once; input ids {:?}", dups, input_ids));
                    } else {
                        s.violation("duplicate-ids", "ids of the returned MathML are not distinct".into(), format!("ids {:?} occur more than once in {}", dups, first_line(out.trim(), 300)));
                    }
                    return;
                }
                s.probe("ids_unique");
                self.check_author_ids(s, &src, out);
                if input_ids.iter().any(|i| normalize_ids(i) != *i) {
                    s.probe("own_output_fed_back");
                }
                self.check_nav(s, "set_mathml");
                let h = state_hash_of(&[&src, &ids.len().to_string()]);
                s.state_hash(h);
            }
            (Op::SetMathml(_), _) => self.check_nav(s, "a failed set_mathml"),
            (Op::Speech | Op::Overview, Res::Ok(out)) => {
                let m = marks_in(out);
                if !m.is_empty() {
                    s.probe("bookmarks_seen");
                }
                self.check_handed_out(s, "a bookmark in speech", &m);
            }
            (Op::Cmd(_) | Op::Key { .. }, r) => {
                if let Res::Ok(out) = r {
                    let m = marks_in(out);
                    self.check_handed_out(s, "a bookmark in navigation speech", &m);
                }
                self.check_nav(s, "a navigation command");
            }
            (Op::SetNavNode(_, _), _) => self.check_nav(s, "set_navigation_node"),
            (Op::NodeFromPos(_), Res::Ok(v)) => {
                let (id, _) = split_pair(v);
                self.check_handed_out(s, "the node found from a braille position", &[id]);
                s.probe("routing_id_checked");
            }
            _ => {}
        }
    }

    fn on_check(&mut self, s: &mut Sess, kind: &str, _args: &serde_json::Value) {
        if kind == "refeed_tokens" {
            if let Some(op) = refeed_tokens(s) {
                let r = s.call(&op);
                self.after_call(s, &op, &r);
            }
        }
    }
}

// ---------------------------------------------------------------------------------------------------

const ID_EXPRS: &[usize] = &[20, 21, 22, 23, 2, 3, 10, 12, 14, 24, 25, 27, 30, 35, 38, 46, 48, 49];

pub fn random_trace(seed: u64) -> Trace {
    let mut rng = Rng::stream(seed, "c09-workload");
    let mut t = Trace::new("C09", "C09");
    t.origin = format!("random seed={}", seed);
    t.world.lib_rand_seed = seed;
    // clock / randomness faults that reach the id prefix
    t.world.lib_rand_repeat = *rng.pick(&[0.0, 0.0, 0.5, 1.0]);
    t.world.start_ms = *rng.pick(&[1_790_000_000_000u64, 1_790_000_000_000, 46_655, 36 * 36 * 36 * 1000 - 1, 978_307_200_000]);
    let stalled_clock = rng.chance(0.5);
    let mut s: Vec<Step> = vec![Step::Call(Op::SetRulesDir(MOUNT_A.into()))];
    if rng.chance(0.6) {
        s.push(Step::Call(Op::SetPref("TTS".into(), rng.pick(&["SSML", "SAPI5"]).to_string())));
        s.push(Step::Call(Op::SetPref("Bookmark".into(), "true".into())));
    }
    if rng.chance(0.4) {
        s.push(Step::Call(Op::SetPref("BrailleCode".into(), rng.pick(&["Nemeth", "UEB", "CMU", "Vietnam"]).to_string())));
    }
    if rng.chance(0.3) {
        s.push(Step::Call(Op::SetPref("NavMode".into(), rng.pick(pools::NAV_MODES).to_string())));
    }
    let pick_expr = |rng: &mut Rng| -> ExprRef {
        match rng.below(10) {
            0..=2 => ExprRef::Pool(*rng.pick(ID_EXPRS)),
            3..=5 => ExprRef::Gen { seed: rng.next_u64() % 1_000_000, ids: *rng.pick(&[0u8, 1, 1, 2, 2]) },
            6 | 7 => ExprRef::Feedback,
            8 => {
                if rng.chance(0.6) {
                    ExprRef::Corpus(rng.below(pools::corpus().len()))
                } else {
                    ExprRef::Pool(rng.below(pools::VALID_EXPRS.len()))
                }
            }
            _ => ExprRef::Bad(rng.below(pools::INVALID_EXPRS.len())),
        }
    };
    s.push(Step::Call(Op::SetMathml(ExprRef::Pool(*rng.pick(ID_EXPRS)))));
    let n = rng.range(8, 90);
    for _ in 0..n {
        if !stalled_clock && rng.chance(0.2) {
            s.push(Step::Env(EnvEvent::Clock { ms: *rng.pick(&[1u64, 1, 7, 1000, 46_656, 3_600_000]) }));
        }
        match rng.below(20) {
            0..=3 => s.push(Step::Call(Op::SetMathml(pick_expr(&mut rng)))),
            4..=9 => s.push(Step::Call(Op::Cmd(crate::props::c11::random_nav_command(&mut rng)))),
            10 => s.push(Step::Call(crate::props::c11::random_key(&mut rng))),
            11 | 12 => s.push(Step::Call(Op::Speech)),
            13 => s.push(Step::Call(Op::Overview)),
            14 | 15 => s.push(Step::Call(Op::NodeFromPos(PosRef::Permille(rng.below(1000))))),
            16 => s.push(Step::Call(Op::SetNavNode(crate::props::c08::random_id(&mut rng), *rng.pick(&[0usize, 0, 1])))),
            17 => s.push(Step::Call(Op::Braille(IdRef::Nav))),
            18 => s.push(Step::Call(Op::BraillePos)),
            _ => s.push(Step::Call(Op::SetPref("Bookmark".into(), rng.pick(&["true", "false"]).to_string()))),
        }
    }
    t.sessions = vec![s];
    t
}

pub fn directed() -> Vec<Trace> {
    let mut v = Vec::new();
    let mk = |name: &str, repeat: f64, steps: Vec<Step>| {
        let mut t = Trace::new("C09", "C09");
        t.origin = format!("directed {}", name);
        t.world.lib_rand_repeat = repeat;
        let mut s = vec![Step::Call(Op::SetRulesDir(MOUNT_A.into()))];
        s.extend(steps);
        t.sessions = vec![s];
        t
    };
    let set = |e: ExprRef| Step::Call(Op::SetMathml(e));
    let cmd = |c: &str| Step::Call(Op::Cmd(c.to_string()));
    // own output fed back in the same millisecond with a repeating random part: new ids must not collide with the old ones
    v.push(mk("feedback-same-ms-same-random", 1.0, vec![set(ExprRef::Lit("<math><mi>x</mi><mo>+</mo><mfenced><mi>a</mi><mi>b</mi></mfenced></math>".into())), set(ExprRef::Feedback), set(ExprRef::Lit("<math><mrow><mi id='M0000000-0'>x</mi><mi>y</mi></mrow></math>".into())), set(ExprRef::Feedback)]));
    v.push(mk(
        "feedback-with-removed-wrapper",
        1.0,
        vec![
            set(ExprRef::Pool(2)),
            // an author keeps MathCAT's ids on the tokens but wraps them differently: canonicalization adds elements that need fresh ids
            Step::Check { kind: "refeed_tokens".into(), args: serde_json::Value::Null },
        ],
    ));
    // every pool expression (incl. the regression section), set and fed back, normally and with a repeating id prefix
    for repeat in [0.0, 1.0] {
        let mut steps = Vec::new();
        for e in 0..pools::VALID_EXPRS.len() {
            if e == pools::EXPR_DUP_AUTHOR_IDS {
                continue; // has its own scenario (recorded finding)
            }
            steps.push(set(ExprRef::Pool(e)));
            steps.push(set(ExprRef::Feedback));
            steps.push(cmd("ZoomIn"));
        }
        v.push(mk(&format!("every-pool-expression-and-feedback-repeat-{}", repeat), repeat, steps));
    }
    // duplicate author ids
    v.push(mk("duplicate-author-ids", 0.0, vec![set(ExprRef::Pool(pools::EXPR_DUP_AUTHOR_IDS)), cmd("ZoomIn"), cmd("MoveNext"), cmd("MoveNext")]));
    // bookmarks and routing over every expression with ids
    for tts in ["SSML", "SAPI5"] {
        let mut steps = vec![Step::Call(Op::SetPref("TTS".into(), tts.into())), Step::Call(Op::SetPref("Bookmark".into(), "true".into()))];
        for e in ID_EXPRS {
            steps.push(set(ExprRef::Pool(*e)));
            steps.push(Step::Call(Op::Speech));
            steps.push(cmd("ZoomIn"));
            steps.push(cmd("MoveNext"));
            for k in [0usize, 250, 500, 750, 999] {
                steps.push(Step::Call(Op::NodeFromPos(PosRef::Permille(k))));
            }
        }
        v.push(mk(&format!("bookmarks-and-routing-{}", tts), 0.0, steps));
    }
    v
}

/// the "refeed_tokens" check step: take the token elements (with MathCAT's ids) of the current MathML and set them
/// again inside new wrappers, in the same millisecond
pub fn refeed_tokens(s: &mut Sess) -> Option<Op> {
    static RE: OnceLock<Regex> = OnceLock::new();
    let re = RE.get_or_init(|| Regex::new(r"<(mi|mn|mo)( [^<>]*)?>([^<>]*)</(mi|mn|mo)>").unwrap());
    let cur = s.cur_mathml.clone()?;
    let tokens: Vec<String> = re.find_iter(&cur).map(|m| m.as_str().to_string()).collect();
    if tokens.is_empty() {
        return None;
    }
    let body = tokens.join("");
    Some(Op::SetMathml(ExprRef::Lit(format!("<math><mstyle><mfenced>{}</mfenced></mstyle></math>", body))))
}
