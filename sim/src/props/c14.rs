//! C14 — broken rule files give errors, not crashes, and recovery is complete.
//! Enumeration of (configuration x reachable file x fault kind x placement phase x repair mode) plus free exploration.
use std::collections::{BTreeMap, BTreeSet, HashMap};
use std::sync::Arc;

use serde::{Deserialize, Serialize};
use serde_json::json;

use crate::exec::*;
use crate::faults;
use crate::pools;
use crate::props::common::*;
use crate::rng::Rng;
use crate::simfs::*;
use crate::trace::*;
use crate::world::*;

pub fn file_role(path: &str) -> String {
    let rel = path.strip_prefix(MOUNT_A).or_else(|| path.strip_prefix(MOUNT_B)).unwrap_or(path).trim_start_matches('/');
    let name = rel.rsplit('/').next().unwrap_or(rel);
    let in_braille = rel.starts_with("Braille/");
    let in_lang = rel.starts_with("Languages/");
    if path.starts_with(CONFIG_DIR) && name == "prefs.yaml" {
        "user-prefs".into()
    } else if rel == "prefs.yaml" {
        "prefs".into()
    } else if rel == "definitions.yaml" || rel == "Braille/definitions.yaml" {
        "root-definitions".into()
    } else if rel == "intent.yaml" {
        "intent".into()
    } else if rel.starts_with("Intent/") {
        "intent-include".into()
    } else if rel.contains("/SharedRules/") {
        "shared-include".into()
    } else if name == "unicode.yaml" {
        if in_braille { "braille-unicode".into() } else { "speech-unicode".into() }
    } else if name == "unicode-full.yaml" {
        if in_braille { "braille-unicode-full".into() } else { "speech-unicode-full".into() }
    } else if name == "definitions.yaml" {
        if in_braille { "braille-definitions".into() } else { "speech-definitions".into() }
    } else if name == "navigate.yaml" {
        "navigate".into()
    } else if name == "overview.yaml" {
        "overview".into()
    } else if name.ends_with("_Rules.yaml") {
        if in_braille { "braille-rules".into() } else { "speech-style".into() }
    } else if in_lang || in_braille {
        "other-rule-file".into()
    } else if !rel.contains('.') {
        "directory".into()
    } else {
        "other".into()
    }
}

#[derive(Default)]
struct Outstanding {
    path: String,
    kind: String,
    /// a content fault whose bytes can never load (so an Ok output while it is outstanding must be the old output)
    must_err_content: bool,
}

pub struct C14Checker {
    rounds: HashMap<String, Vec<(String, Res)>>,
    outstanding: Vec<Outstanding>,
    last_fault: String,
    last_repair: String,
    ever_faulted: bool,
    clean: HashMap<String, Vec<(String, Res)>>,
    /// per round: the sources of the two expressions that were set successfully
    srcs: HashMap<String, (Option<String>, Option<String>)>,
    tainted: bool,
    /// which getter is called at the start of a round, BEFORE the expression is set again (0 overview, 1 braille, 2 speech):
    /// the starting point is derived from the trace's origin and it rotates from round to round, so that every rule set is
    /// the first to meet a broken, repaired or switched-back configuration in a third of the runs each
    pre_getter: usize,
    /// Language in force when the current expression was set (the as-is getter is only meaningful under the same Language)
    set_under: Option<String>,
    /// per round: (source of the expression that was current, getter name, its result)
    pre: HashMap<String, (String, String, Res)>,
}

/// expression with separator-bearing numbers used in the second part of every probe round
const NUMBERS_EXPR: usize = 31;
/// expression left current at the end of every probe round: its canonical form does not depend on the Language (no
/// separators, no function names), so the first getter of the next round can be compared with a fresh session also when
/// the Language was different when it was set
const NEUTRAL_EXPR: &str = "<math><mi>x</mi><mo>+</mo><mn>1</mn><mo>=</mo><mi>y</mi><mo>&#x2212;</mo><mi>&#x3B1;</mi></math>";

impl C14Checker {
    pub fn new(trace: &Trace, _session: usize) -> C14Checker {
        let pre_getter = (crate::rng::fnv_str(&trace.origin) % 3) as usize;
        let transient = trace.origin.starts_with("enumeration transient");
        C14Checker { rounds: HashMap::new(), outstanding: vec![], last_fault: if transient { "transient-read-error in-call".into() } else { "none".into() }, last_repair: if transient { "retry".into() } else { "none".into() }, ever_faulted: false, clean: HashMap::new(), srcs: HashMap::new(), tainted: false, pre_getter, set_under: None, pre: HashMap::new() }
    }

    /// O2: the call that consumed faulted bytes of a MUST-ERR fault must fail and name the file
    fn check_o2(&mut self, s: &mut Sess, op: &Op, res: &Res) {
        // taint: the session has taken in content (or a fallback location) of a fault that may legally load; until the
        // end-of-run recovery its Ok outputs are a legal different configuration and are not compared (O3 relaxation)
        if s.last_seam.iter().any(|r| r.fault.as_ref().map(|f| f.class == FaultClass::MayLoad).unwrap_or(false)) {
            if !self.tainted {
                s.probe("session_tainted_by_may_load_fault");
            }
            self.tainted = true;
        }
        let consumed: Vec<SeamRec> = s
            .last_seam
            .iter()
            .filter(|r| matches!(r.kind, SeamKind::Read | SeamKind::Canon) && r.fault.as_ref().map(|f| f.class == FaultClass::MustErr).unwrap_or(false))
            .cloned()
            .collect();
        let injected: Vec<SeamRec> = s.last_seam.iter().filter(|r| matches!(r.kind, SeamKind::Read) && r.injected.is_some()).cloned().collect();
        if consumed.is_empty() && injected.is_empty() {
            return;
        }
        s.probe("call_consumed_fault");
        let first = consumed.first().or(injected.first()).unwrap().clone();
        let path = first.path.to_string_lossy().to_string();
        let kind = first.fault.as_ref().map(|f| f.kind.clone()).unwrap_or_else(|| format!("{:?}", first.injected.as_ref().unwrap()));
        let role = file_role(&path);
        match res {
            Res::Ok(_) => {
                s.violation_g(
                    "fault-not-reported",
                    format!("{} ok after consuming {} {}", op.name(), kind, role),
                    format!("{} ok after consuming {}", op.name(), role),
                    format!("{} returned Ok although it read the faulted file {} ({})", describe(op), path, kind),
                );
            }
            Res::Err(chain) => {
                let named = consumed.iter().chain(injected.iter()).any(|r| {
                    let p = r.path.to_string_lossy().to_string();
                    let base = p.rsplit('/').next().unwrap_or(&p).to_string();
                    chain.contains(&p) || (!base.is_empty() && chain.contains(&base))
                });
                if named {
                    s.probe("error_names_file");
                } else {
                    s.violation_g(
                        "error-does-not-name-file",
                        format!("{} error for {} {}", op.name(), kind, role),
                        format!("{} error for {}", op.name(), role),
                        format!("{} failed but the error chain does not name {}:\n{}", describe(op), path, first_line(chain, 300)),
                    );
                }
            }
            Res::Panic(_, _) => {} // reported by the universal panic check
        }
    }

    fn probe_round(&mut self, s: &mut Sess, tag: &str, expr: &ExprRef) {
        let ops = vec![
            Op::SetMathml(expr.clone()),
            Op::Speech,
            Op::Braille(IdRef::Empty),
            Op::Overview,
            Op::Cmd("ZoomIn".into()),
            Op::NavBraille,
            Op::Cmd("MoveNext".into()),
        ];
        let cfg_key = ["Language", "SpeechStyle", "BrailleCode"].iter().map(|n| s.call(&Op::GetPref(n.to_string())).short()).collect::<Vec<_>>().join(",");
        let language = cfg_key.split(',').next().unwrap_or("").to_string();
        // one getter on the expression that is still current from the previous round, before anything else of this round:
        // after a repair or a switch back the first call may be ANY getter, not the set_mathml / speech that the round
        // starts with (the overview, navigation and intent rule sets share tables with the speech rules)
        self.pre.remove(tag);
        let neutral_is_current = s.cur_src.as_deref() == Some(NEUTRAL_EXPR);
        if let (Some(src0), true) = (s.cur_src.clone(), neutral_is_current || self.set_under.as_deref() == Some(language.as_str())) {
            // rotate from round to round: the rule set that meets a broken file first and the one that is used first after
            // the repair or the switch back are then different ones (they share tables and bookkeeping)
            self.pre_getter = (self.pre_getter + 1) % 3;
            let op = [Op::Overview, Op::Braille(IdRef::Empty), Op::Speech][self.pre_getter].clone();
            let res = s.call(&op);
            self.check_o2(s, &op, &res);
            self.pre.insert(tag.to_string(), (src0, op.name().to_string(), norm(&res)));
        }
        let mut results = Vec::new();
        let mut src1 = None;
        for op in ops {
            let res = s.call(&op);
            self.check_o2(s, &op, &res);
            if matches!(op, Op::SetMathml(_)) && res.is_ok() {
                src1 = s.cur_src.clone();
                self.set_under = Some(language.clone());
            }
            results.push((op.name().to_string(), norm(&res)));
        }
        // a second, short part of the round on an expression with separator-bearing numbers (the derived separator
        // preferences depend on Language and on what was read from prefs.yaml), and the full preference snapshot
        let mut src2 = None;
        for op in [Op::SetMathml(ExprRef::Pool(NUMBERS_EXPR)), Op::Speech, Op::Braille(IdRef::Empty)] {
            let res = s.call(&op);
            self.check_o2(s, &op, &res);
            if matches!(op, Op::SetMathml(_)) && res.is_ok() {
                src2 = s.cur_src.clone();
                self.set_under = Some(language.clone());
            }
            results.push((format!("{} (numbers)", op.name()), norm(&res)));
        }
        let names = pref_names(&s.ctx.base);
        let snapshot: Vec<String> = s.read_prefs(&names).into_iter().filter(|(n, _)| n != "CheckRuleFiles").map(|(n, v)| format!("{}={}", n, v)).collect();
        results.push(("preference snapshot".to_string(), Res::Ok(snapshot.join("\n"))));
        // leave the neutral expression current for the first getter of the next round
        {
            let op = Op::SetMathml(ExprRef::Lit(NEUTRAL_EXPR.to_string()));
            let res = s.call(&op);
            self.check_o2(s, &op, &res);
            if res.is_ok() {
                self.set_under = Some(language.clone());
            }
            results.push(("set_mathml (neutral)".to_string(), norm(&res)));
        }
        self.srcs.insert(tag.to_string(), (src1, src2));
        // O3: while only never-loadable content faults are outstanding, an Ok output must be the output the same
        // configuration and expression gave before any fault (a half-loaded table must never speak).
        // Only outputs that do not depend on a failed earlier call of the round are compared.
        let key = format!("{}|{:?}", cfg_key, expr);
        // a round is a valid "before the fault" baseline only if nothing was injected into it and its expression was set
        let injected_here = {
            let g = s.world.lock();
            g.injections.iter().any(|i| i.session == s.id && i.step == s.step)
        };
        if !self.ever_faulted {
            if !injected_here && results.first().map(|(_, r)| r.is_ok()).unwrap_or(false) {
                self.clean.insert(key.clone(), results.clone());
            }
        } else if !self.tainted && !self.outstanding.is_empty() && self.outstanding.iter().all(|o| o.must_err_content) {
            if let Some(base) = self.clean.get(&key).cloned() {
                let set_ok = results.first().map(|(_, r)| r.is_ok()).unwrap_or(false);
                let mut nav_ok = set_ok;
                for (i, (name, res)) in results.iter().enumerate() {
                    let set2_ok = results.get(7).map(|(_, r)| r.is_ok()).unwrap_or(false);
                    let independent = match i {
                        0 | 7 | 10 | 11 => true,
                        1..=3 => set_ok,
                        8 | 9 => set2_ok,
                        _ => nav_ok,
                    };
                    if (4..7).contains(&i) && !res.is_ok() {
                        nav_ok = false;
                    }
                    if !independent {
                        continue;
                    }
                    if let (Res::Ok(now), Some((_, Res::Ok(before)))) = (res, base.get(i)) {
                        if now != before {
                            let o = &self.outstanding[0];
                            s.violation_g(
                                "wrong-output-while-faulted",
                                format!("{} differs while {} {} outstanding", name, o.kind, file_role(&o.path)),
                                format!("{} differs while {} outstanding", name, file_role(&o.path)),
                                format!("before the fault: {}\nwhile faulted: {}", before, now),
                            );
                            break;
                        } else {
                            s.probe("cached_table_keeps_answering");
                        }
                    }
                }
            }
        }
        self.rounds.insert(tag.to_string(), results);
    }

    /// the getter that was called before the round set its expression, against a fresh session holding that expression
    fn check_pre(&mut self, s: &mut Sess, tag: &str, rules_dir: &str) -> bool {
        let Some((src0, name, got)) = self.pre.get(tag).cloned() else { return true };
        let prefs = prefs_for_reference(s);
        let fs = s.world.lock().fs.clone();
        let r0 = reference_outputs(s, &fs, rules_dir, &prefs, &src0);
        if !r0.setup_errors.is_empty() {
            // a fresh session cannot even be set up while the outstanding fault sits in a file every start-up needs
            // (e.g. the English fallback files): no oracle for this call
            s.probe("first_getter_without_reference");
            return true;
        }
        let exp = norm(match name.as_str() {
            "get_overview_text" => &r0.overview,
            "get_braille" => &r0.braille,
            _ => &r0.speech,
        });
        if got != exp && !(got.is_err() && exp.is_err()) {
            s.violation_g(
                "recovery-incomplete",
                format!("{} as the first call differs from fresh session after {} of {}", name, self.last_repair, self.last_fault),
                format!("{} as the first call differs from fresh session after {} of {}", name, self.last_repair, self.last_fault.split(' ').last().unwrap_or("")),
                format!("the first call after the repair / switch back, on the expression that was still current\nsession: {}\nfresh session: {}", got.short(), exp.short()),
            );
            return false;
        }
        s.probe("first_getter_equals_fresh_session");
        true
    }

    fn expect_equal(&mut self, s: &mut Sess, a: &str, b: &str) {
        let (Some(ra), Some(rb)) = (self.rounds.get(a).cloned(), self.rounds.get(b).cloned()) else { return };
        // the first call of round b (made before the round set its expression) has no counterpart in round a: it is compared
        // with a fresh session (whose configuration does not touch the files that are still broken). Only when the session
        // has not taken in content of a fault that may legally load.
        if !self.tainted {
            if let Some(dir) = s.rules_dir.clone() {
                if !self.check_pre(s, b, &dir) {
                    return;
                }
            }
        }
        for ((name, x), (_, y)) in ra.iter().zip(rb.iter()) {
            if x != y {
                s.violation_g(
                    "recovery-incomplete",
                    format!("{} differs after {} of {}", name, self.last_repair, self.last_fault),
                    format!("{} differs after {} of {}", name, self.last_repair, self.last_fault.split(' ').last().unwrap_or("")),
                    format!("round '{}': {}\nround '{}': {}", a, x.short(), b, y.short()),
                );
                return;
            }
        }
        s.probe("recovered_identical");
    }

    fn expect_ref(&mut self, s: &mut Sess, tag: &str, rules_dir: &str) {
        let Some(round) = self.rounds.get(tag).cloned() else { return };
        let (src1, src2) = self.srcs.get(tag).cloned().unwrap_or((None, None));
        let Some(src) = src1 else {
            // set_mathml of the round failed: compare nothing but report (after a repair it must not fail)
            s.violation(
                "recovery-incomplete",
                format!("set_mathml fails after {} of {}", self.last_repair, self.last_fault),
                format!("round '{}': {}", tag, round.first().map(|(_, r)| r.short()).unwrap_or_default()),
            );
            return;
        };
        let prefs = prefs_for_reference(s);
        let fs = s.world.lock().fs.clone();
        let r = reference_outputs(s, &fs, rules_dir, &prefs, &src);
        if !r.setup_errors.is_empty() {
            s.note(format!("reference set-up errors: {:?}", r.setup_errors));
        }
        if !self.check_pre(s, tag, rules_dir) {
            return;
        }
        let expected = [("set_mathml", norm(&r.set_mathml)), ("get_spoken_text", norm(&r.speech)), ("get_braille", norm(&r.braille)), ("get_overview_text", norm(&r.overview))];
        for (i, (name, exp)) in expected.iter().enumerate() {
            if let Some((_, got)) = round.get(i) {
                if got != exp {
                    s.violation_g(
                        "recovery-incomplete",
                        format!("{} differs from fresh session after {} of {}", name, self.last_repair, self.last_fault),
                        format!("{} differs from fresh session after {} of {}", name, self.last_repair, self.last_fault.split(' ').last().unwrap_or("")),
                        format!("session: {}\nfresh session: {}\nprefs given to the fresh session: {:?}", got.short(), exp.short(), r.applied),
                    );
                    return;
                }
            }
        }
        // the numbers part of the round against its own fresh session
        if let Some(src2) = src2 {
            let r2 = reference_outputs(s, &fs, rules_dir, &prefs, &src2);
            let expected2 = [(7usize, "set_mathml (numbers)", norm(&r2.set_mathml)), (8, "get_spoken_text (numbers)", norm(&r2.speech)), (9, "get_braille (numbers)", norm(&r2.braille))];
            for (i, name, exp) in expected2.iter() {
                if let Some((_, got)) = round.get(*i) {
                    if got != exp {
                        s.violation_g(
                            "recovery-incomplete",
                            format!("{} differs from fresh session after {} of {}", name, self.last_repair, self.last_fault),
                            format!("{} differs from fresh session after {} of {}", name, self.last_repair, self.last_fault.split(' ').last().unwrap_or("")),
                            format!("session: {}\nfresh session: {}\nprefs given to the fresh session: {:?}", got.short(), exp.short(), r.applied),
                        );
                        return;
                    }
                }
            }
        } else {
            s.violation(
                "recovery-incomplete",
                format!("set_mathml fails after {} of {}", self.last_repair, self.last_fault),
                format!("round '{}': {}", tag, round.get(7).map(|(_, r)| r.short()).unwrap_or_default()),
            );
            return;
        }
        s.probe("equals_fresh_session");
    }

    /// what an application does after a failed initialisation: try again until the configuration sticks
    fn ensure_config(&mut self, s: &mut Sess, rules_dir: &str, cfg: &Config, check: &str, force_init: bool) {
        let need_init = force_init || s.rules_dir.as_deref() != Some(rules_dir) || !s.call(&Op::GetPref("Language".into())).is_ok();
        if need_init {
            let op = Op::SetRulesDir(rules_dir.to_string());
            let r = s.call(&op);
            self.check_o2(s, &op, &r);
        }
        for (n, v) in [("CheckRuleFiles", check), ("Language", cfg.lang.as_str()), ("SpeechStyle", cfg.style.as_str()), ("BrailleCode", cfg.code.as_str())] {
            let cur = s.call(&Op::GetPref(n.to_string()));
            if cur.ok() != Some(v) {
                let op = Op::SetPref(n.to_string(), v.to_string());
                let r = s.call(&op);
                self.check_o2(s, &op, &r);
            }
        }
    }
}

impl Checker for C14Checker {
    fn after_call(&mut self, s: &mut Sess, op: &Op, res: &Res) {
        self.check_o2(s, op, res);
        if matches!(op, Op::SetMathml(_)) && res.is_ok() {
            self.set_under = None; // set outside a probe round: the Language in force is not tracked
        }
    }

    fn after_env(&mut self, s: &mut Sess, ev: &EnvEvent, outcome: &str) {
        match ev {
            EnvEvent::Fault { path, kind } if outcome.starts_with("applied") => {
                let must_err_content = outcome == "applied:MustErr";
                self.outstanding.retain(|o| &o.path != path);
                self.outstanding.push(Outstanding { path: path.clone(), kind: faults::kind_name(kind), must_err_content });
                self.last_fault = format!("{} {}", faults::kind_name(kind), file_role(path));
                self.ever_faulted = true;
                s.probe("fault_applied");
            }
            EnvEvent::Repair { path, .. } => {
                self.outstanding.retain(|o| &o.path != path);
                self.last_repair = "repair".into();
            }
            EnvEvent::RepairAll => {
                self.outstanding.clear();
                self.last_repair = "repair".into();
            }
            _ => {}
        }
    }

    fn on_check(&mut self, s: &mut Sess, kind: &str, args: &serde_json::Value) {
        match kind {
            "probe" => {
                let tag = args["tag"].as_str().unwrap_or("t").to_string();
                let expr: ExprRef = serde_json::from_value(args["expr"].clone()).unwrap_or(ExprRef::Pool(0));
                self.probe_round(s, &tag, &expr);
            }
            "touch_one" => {
                // one call only (the rotating getter, or set_mathml): exactly one rule set meets the configuration
                self.pre_getter = (self.pre_getter + 1) % 3;
                let op = [Op::Speech, Op::Overview, Op::SetMathml(ExprRef::Pool(2))][self.pre_getter].clone();
                let r = s.call(&op);
                self.check_o2(s, &op, &r);
                if matches!(op, Op::SetMathml(_)) && r.is_ok() {
                    self.set_under = None;
                }
            }
            "settle" => {
                let op = Op::Speech;
                let r = s.call(&op);
                self.check_o2(s, &op, &r);
            }
            "expect_equal" => {
                let a = args["a"].as_str().unwrap_or("").to_string();
                let b = args["b"].as_str().unwrap_or("").to_string();
                self.expect_equal(s, &a, &b);
            }
            "expect_ref" => {
                let tag = args["tag"].as_str().unwrap_or("").to_string();
                let dir = args["rules_dir"].as_str().unwrap_or(MOUNT_A).to_string();
                self.expect_ref(s, &tag, &dir);
            }
            "ensure_config" => {
                let dir = args["rules_dir"].as_str().unwrap_or(MOUNT_A).to_string();
                let cfg: Config = serde_json::from_value(args["config"].clone()).unwrap_or(Config::new("en", "ClearSpeak", "Nemeth"));
                let check = args["check"].as_str().unwrap_or("All").to_string();
                let force = args["force_init"].as_bool().unwrap_or(false);
                if dir != MOUNT_A {
                    self.last_repair = "re-pointing".into();
                }
                self.ensure_config(s, &dir, &cfg, &check, force);
            }
            _ => {}
        }
    }
}

// ---------------------------------------------------------------------------------------------------
// Enumeration

#[derive(Serialize, Deserialize, Clone, Debug, PartialEq)]
pub enum Phase {
    /// fault before the session starts
    Cold,
    /// fault after everything has been loaded and used
    Warm,
    /// fault after the short Unicode table is loaded but before the lazy load of the full table
    BeforeLazyFull,
    /// fault on files of another configuration, then switch into it
    SwitchInto,
    /// the same, then switch back out before the repair
    SwitchBackOut,
    /// switch into the configuration with the broken file, make ONE call there (only one rule set meets the fault), switch
    /// back: the other rule sets share tables and file records with the one that failed
    SwitchTouchBack,
}

#[derive(Serialize, Deserialize, Clone, Debug, PartialEq)]
pub enum RepairMode {
    /// CheckRuleFiles=All, pristine bytes written back with a later mtime
    R1CheckAll,
    /// set_rules_dir re-pointed to a pristine mount
    R2Repoint,
    /// CheckRuleFiles=All, the file restored from a backup that keeps its OLD modification time (cp -p, rsync -t, an
    /// installer): the mtime moves backwards, to what it was before the fault
    R3RestoreOldMtime,
}

#[derive(Serialize, Deserialize, Clone, Debug)]
pub struct Case {
    pub config: Config,
    /// for the switch phases: the configuration whose files are broken
    pub other: Option<Config>,
    pub file: String,
    pub kind: FaultKind,
    pub phase: Phase,
    pub mode: RepairMode,
}

pub fn base_configs() -> Vec<Config> {
    vec![
        Config::new("en", "ClearSpeak", "Nemeth"),
        Config::new("sv", "ClearSpeak", "Swedish"),
        Config::new("en-gb", "SimpleSpeak", "UEB"),
        Config::new("es", "ClearSpeak", "CMU"),
        Config::new("vi", "ClearSpeak", "Vietnam"),
        Config::new("zh-tw", "SimpleSpeak", "LaTeX"),
        Config::new("fi", "SimpleSpeak", "ASCIIMath"),
    ]
}

fn probe_step(tag: &str, expr: usize) -> Step {
    Step::Check { kind: "probe".into(), args: json!({"tag": tag, "expr": ExprRef::Pool(expr)}) }
}
fn ensure_step(dir: &str, cfg: &Config, check: &str, force: bool) -> Step {
    Step::Check { kind: "ensure_config".into(), args: json!({"rules_dir": dir, "config": cfg, "check": check, "force_init": force}) }
}
fn expect_equal_step(a: &str, b: &str) -> Step {
    Step::Check { kind: "expect_equal".into(), args: json!({"a": a, "b": b}) }
}
fn expect_ref_step(tag: &str, dir: &str) -> Step {
    Step::Check { kind: "expect_ref".into(), args: json!({"tag": tag, "rules_dir": dir}) }
}
fn clock(ms: u64) -> Step {
    Step::Env(EnvEvent::Clock { ms })
}

/// Files (absolute sim paths) a fault-free session of `cfg` reads, found from the seam log of a warm-up run
pub fn reachable_files(ctx: &Arc<ExecCtx>, cfg: &Config) -> Result<Vec<String>, String> {
    let mut t = Trace::new("C14", "C14warmup");
    let mut steps = vec![Step::Call(Op::SetRulesDir(MOUNT_A.into())), Step::Call(Op::SetPref("CheckRuleFiles".into(), "All".into()))];
    steps.extend(cfg.set_steps());
    for op in [Op::SetMathml(ExprRef::Pool(pools::EXPR_NEEDS_FULL_UNICODE)), Op::Speech, Op::Braille(IdRef::Empty), Op::Overview, Op::Cmd("ZoomIn".into())] {
        steps.push(Step::Call(op));
    }
    t.sessions = vec![steps];
    let ctx2 = Arc::new(ExecCtx { base: ctx.base.clone(), zipped_base: ctx.zipped_base.clone(), keep_log: true });
    let out = execute(&t, &ctx2);
    if let Some(e) = out.harness_error {
        return Err(e);
    }
    let mut files = BTreeSet::new();
    let mut failed = Vec::new();
    for line in out.log.unwrap_or_default() {
        if let Some(i) = line.find("seam Read ") {
            let rest = &line[i + 10..];
            if rest.contains(" ok=true") {
                if let Some(p) = rest.split(" ok=").next() {
                    files.insert(p.to_string());
                }
            }
        }
        if line.contains(" ret Err(") || line.contains(" ret PANIC(") {
            failed.push(line);
        }
    }
    if !failed.is_empty() {
        return Err(format!("fault-free warm-up of {:?} has failing calls: {:?}", cfg, failed));
    }
    Ok(files.into_iter().collect())
}

pub const VALID_USER_PREFS: &str = "---\n  Speech:\n    Verbosity: Verbose\n  Navigation:\n    NavVerbosity: Terse\n  Braille:\n    BrailleNavHighlight: All\n  Other:\n    DecimalSeparator: \"Auto\"\n";

pub fn case_trace(case: &Case) -> Trace {
    let mut t = case_trace_inner(case);
    if case.file == crate::world::user_prefs_path().to_string_lossy() {
        // the user's own prefs.yaml exists (valid) before anything else happens; the fault is derived from it
        t.sessions[0].insert(0, Step::Env(EnvEvent::WriteUserPrefs { content: VALID_USER_PREFS.into() }));
    }
    t
}

fn case_trace_inner(case: &Case) -> Trace {
    let mut t = Trace::new("C14", "C14");
    t.origin = format!("enumeration {:?}", case);
    let cfg = &case.config;
    let e_full = pools::EXPR_NEEDS_FULL_UNICODE;
    let e_plain = 2usize;
    let fault = Step::Env(EnvEvent::Fault { path: case.file.clone(), kind: case.kind.clone() });
    let repair_dir = match case.mode {
        RepairMode::R1CheckAll | RepairMode::R3RestoreOldMtime => MOUNT_A,
        RepairMode::R2Repoint => MOUNT_B,
    };
    let check = match case.mode {
        RepairMode::R1CheckAll | RepairMode::R3RestoreOldMtime => "All",
        RepairMode::R2Repoint => "Prefs",
    };
    let repair = |steps: &mut Vec<Step>, target: &Config| {
        steps.push(clock(1500));
        match case.mode {
            RepairMode::R1CheckAll | RepairMode::R3RestoreOldMtime => {
                steps.push(Step::Env(EnvEvent::Repair { path: case.file.clone(), keep_mtime: case.mode == RepairMode::R3RestoreOldMtime }));
                // one call lets the session notice the repaired prefs.yaml (it re-reads it, which drops preferences
                // set through the API: known finding KF-prefs-reread, shown by its own directed scenario under C12);
                // the application then re-applies its configuration. MathCAT resolves file *locations* only in
                // set_rules_dir and on preference changes, so after a missing file or directory is put back the
                // application initialises again (same directory).
                steps.push(Step::Check { kind: "settle".into(), args: json!({}) });
                let path_fault = matches!(case.kind, FaultKind::Deleted | FaultKind::DirMissing | FaultKind::DirIsFile);
                steps.push(ensure_step(MOUNT_A, target, check, path_fault));
            }
            RepairMode::R2Repoint => steps.push(ensure_step(MOUNT_B, target, check, true)),
        }
    };
    let mut s: Vec<Step> = Vec::new();
    match case.phase {
        Phase::Cold => {
            s.push(fault);
            s.push(clock(1000));
            s.push(ensure_step(MOUNT_A, cfg, check, true));
            s.push(probe_step("faulted", e_full));
            repair(&mut s, cfg);
            s.push(probe_step("after", e_full));
            s.push(expect_ref_step("after", repair_dir));
        }
        Phase::Warm => {
            s.push(ensure_step(MOUNT_A, cfg, check, true));
            s.push(probe_step("base", e_full));
            s.push(clock(1000));
            s.push(fault);
            s.push(clock(1000));
            s.push(probe_step("faulted", e_full));
            repair(&mut s, cfg);
            s.push(probe_step("after", e_full));
            s.push(expect_equal_step("base", "after"));
        }
        Phase::BeforeLazyFull => {
            s.push(ensure_step(MOUNT_A, cfg, check, true));
            s.push(probe_step("base", e_plain));
            s.push(clock(1000));
            s.push(fault);
            s.push(clock(1000));
            s.push(probe_step("faulted", e_full));
            repair(&mut s, cfg);
            s.push(probe_step("after", e_full));
            s.push(expect_ref_step("after", repair_dir));
        }
        Phase::SwitchInto | Phase::SwitchBackOut => {
            let other = case.other.clone().unwrap_or_else(|| cfg.clone());
            s.push(ensure_step(MOUNT_A, cfg, check, true));
            s.push(probe_step("base", e_full));
            s.push(clock(1000));
            s.push(fault);
            s.push(clock(1000));
            s.push(ensure_step(MOUNT_A, &other, check, false));
            s.push(probe_step("faulted", e_full));
            if case.phase == Phase::SwitchBackOut {
                s.push(ensure_step(MOUNT_A, cfg, check, false));
                s.push(probe_step("back", e_full));
                // the files of `cfg` were never broken: its outputs must be what they were
                s.push(expect_equal_step("base", "back"));
            }
            repair(&mut s, &other);
            s.push(probe_step("after", e_full));
            s.push(expect_ref_step("after", repair_dir));
        }
        Phase::SwitchTouchBack => {
            let other = case.other.clone().unwrap_or_else(|| cfg.clone());
            s.push(ensure_step(MOUNT_A, cfg, check, true));
            s.push(probe_step("base", e_full));
            s.push(clock(1000));
            s.push(fault);
            s.push(clock(1000));
            s.push(ensure_step(MOUNT_A, &other, check, false));
            s.push(Step::Check { kind: "touch_one".into(), args: json!({}) });
            s.push(ensure_step(MOUNT_A, cfg, check, false));
            s.push(probe_step("back", e_full));
            s.push(expect_equal_step("base", "back"));
            repair(&mut s, cfg);
            s.push(probe_step("after", e_full));
            s.push(expect_ref_step("after", repair_dir));
        }
    }
    t.sessions = vec![s];
    t
}

/// Transient read errors, enumerated: a fault-free cold start of `cfg` (set_rules_dir, CheckRuleFiles, the three
/// configuration preferences, set_mathml, speech, braille, overview, one navigation command) is logged; then, for every
/// call of that start-up and every read that call makes, one trace in which exactly that read fails ONCE (EIO; thorough
/// also "not found" although the existence probe said yes). Nothing is broken on disk and nothing is repaired: the
/// application retries (with CheckRuleFiles=All it just carries on; with the default Prefs it initialises again, the
/// statement promises recovery "with file checking enabled, or after re-pointing the rules directory"). Oracles: no panic
/// anywhere (O1, whatever CheckRuleFiles says), and the round after the retry equals a fresh session (O4).
pub fn transient_traces(ctx: &Arc<ExecCtx>, cfg: &Config, all_kinds: bool) -> Result<Vec<Trace>, String> {
    let e_full = pools::EXPR_NEEDS_FULL_UNICODE;
    let mut v = Vec::new();
    for check in ["All", "Prefs"] {
        let mut head = vec![Step::Call(Op::SetRulesDir(MOUNT_A.into())), Step::Call(Op::SetPref("CheckRuleFiles".into(), check.into()))];
        head.extend(cfg.set_steps());
        for op in [Op::SetMathml(ExprRef::Pool(e_full)), Op::Speech, Op::Braille(IdRef::Empty), Op::Overview, Op::Cmd("ZoomIn".into())] {
            head.push(Step::Call(op));
        }
        // reads per call of the fault-free start-up
        let mut t = Trace::new("C14", "C14warmup");
        t.sessions = vec![head.clone()];
        let ctx2 = Arc::new(ExecCtx { base: ctx.base.clone(), zipped_base: ctx.zipped_base.clone(), keep_log: true });
        let out = execute(&t, &ctx2);
        if let Some(e) = out.harness_error {
            return Err(e);
        }
        let mut reads: Vec<usize> = Vec::new();
        for line in out.log.unwrap_or_default() {
            if line.contains(" s0 call ") {
                reads.push(0);
            } else if line.contains(" seam Read ") && line.contains(" ok=true") {
                if let Some(l) = reads.last_mut() {
                    *l += 1;
                }
            }
        }
        if reads.len() != head.len() {
            return Err(format!("transient enumeration: {} calls logged for {} steps", reads.len(), head.len()));
        }
        let kinds: &[InjectKind] = if all_kinds { &[InjectKind::ReadEio, InjectKind::ReadNotFound] } else { &[InjectKind::ReadEio] };
        for (i, n) in reads.iter().enumerate() {
            for nth in 1..=*n {
                for kind in kinds {
                    let mut t = Trace::new("C14", "C14");
                    t.origin = format!("enumeration transient {:?} at read {} of call {} ({}) {}/{}/{} CheckRuleFiles={}", kind, nth, i, match &head[i] { Step::Call(op) => op.name(), _ => "" }, cfg.lang, cfg.style, cfg.code, check);
                    let mut s = head.clone();
                    s.push(clock(1000));
                    s.push(ensure_step(MOUNT_A, cfg, check, check == "Prefs"));
                    s.push(probe_step("after", e_full));
                    s.push(expect_ref_step("after", MOUNT_A));
                    t.injections.push(Injection { session: 0, step: i, sub: 0, nth, kind: kind.clone(), sticky: false });
                    t.sessions = vec![s];
                    v.push(t);
                }
            }
        }
    }
    Ok(v)
}

/// Zipped deployment (Rules/Languages/xx/xx.zip, Rules/Braille/Code/Code.zip as written by build.rs): the archive of the
/// configuration that is switched into is missing, empty or garbage at the first request, then restored, and the same
/// configuration is requested again in the same session.
pub fn zipped_directed() -> Vec<Trace> {
    let mut v = Vec::new();
    let en = Config::new("en", "ClearSpeak", "Nemeth");
    for (other, zip) in [
        (Config::new("es", "ClearSpeak", "Nemeth"), format!("{}/Languages/es/es.zip", MOUNT_A)),
        (Config::new("en", "ClearSpeak", "CMU"), format!("{}/Braille/CMU/CMU.zip", MOUNT_A)),
        (Config::new("sv", "ClearSpeak", "Swedish"), format!("{}/Languages/sv/sv.zip", MOUNT_A)),
    ] {
        for kind in [FaultKind::Deleted, FaultKind::Empty, FaultKind::Garbage] {
            for back_first in [false, true] {
                let mut t = Trace::new("C14", "C14");
                t.origin = format!("zipped deployment: {} {:?} back_first={}", zip, kind, back_first);
                t.world.zipped = true;
                let mut s = vec![ensure_step(MOUNT_A, &en, "All", true), probe_step("base", 2), clock(1000), Step::Env(EnvEvent::Fault { path: zip.clone(), kind: kind.clone() }), clock(1000)];
                s.push(ensure_step(MOUNT_A, &other, "All", false));
                s.push(probe_step("faulted", 2));
                if back_first {
                    s.push(ensure_step(MOUNT_A, &en, "All", false));
                    s.push(probe_step("back", 2));
                    s.push(expect_equal_step("base", "back"));
                }
                s.push(clock(1500));
                s.push(Step::Env(EnvEvent::Repair { path: zip.clone(), keep_mtime: false }));
                s.push(Step::Check { kind: "settle".into(), args: json!({}) });
                s.push(ensure_step(MOUNT_A, &other, "All", true));
                s.push(probe_step("after", 2));
                s.push(expect_ref_step("after", MOUNT_A));
                t.sessions = vec![s];
                v.push(t);
            }
        }
        // the disk fills up during the first-use extraction: the k-th file is created but its data cannot be written (a torn
        // extraction: complete files, one empty file, missing files); later there is space again and the application retries
        for k in [0u64, 2, 5, 9] {
            for back_first in [false, true] {
                let mut t = Trace::new("C14", "C14");
                t.origin = format!("zipped deployment: disk full after {} writes while extracting {} back_first={}", k, zip, back_first);
                t.world.zipped = true;
                let mut s = vec![ensure_step(MOUNT_A, &en, "All", true), probe_step("base", 2), clock(1000), Step::Env(EnvEvent::DiskFull { after_writes: k }), clock(1000)];
                s.push(ensure_step(MOUNT_A, &other, "All", false));
                s.push(probe_step("faulted", 2));
                if back_first {
                    s.push(ensure_step(MOUNT_A, &en, "All", false));
                    s.push(probe_step("back", 2));
                    s.push(expect_equal_step("base", "back"));
                }
                s.push(clock(1500));
                s.push(Step::Env(EnvEvent::DiskFree));
                s.push(Step::Check { kind: "settle".into(), args: json!({}) });
                s.push(ensure_step(MOUNT_A, &other, "All", true));
                s.push(probe_step("after", 2));
                s.push(expect_ref_step("after", MOUNT_A));
                t.sessions = vec![s];
                v.push(t);
            }
        }
    }
    v
}

pub struct Enumeration {
    pub cases: Vec<Case>,
    pub reachable: BTreeMap<String, Vec<String>>,
}

/// `n_configs`: how many of the base configurations to enumerate completely (quick: 2, thorough: all)
pub fn enumerate(ctx: &Arc<ExecCtx>, n_configs: usize, all_params: bool) -> Result<Enumeration, String> {
    let configs = base_configs();
    let mut reachable: BTreeMap<String, Vec<String>> = BTreeMap::new();
    for c in &configs {
        reachable.insert(format!("{}/{}/{}", c.lang, c.style, c.code), reachable_files(ctx, c)?);
    }
    let key = |c: &Config| format!("{}/{}/{}", c.lang, c.style, c.code);
    let mut kinds = faults::file_fault_kinds();
    kinds.push(FaultKind::TruncEntries(0));
    if all_params {
        kinds.extend([FaultKind::TruncBytes(100), FaultKind::TruncBytes(900), FaultKind::InvalidXpath(500), FaultKind::InvalidUtf8(900), FaultKind::UnknownReplacementKey(0), FaultKind::UnknownReplacementKey(999)]);
    }
    let mut cases = Vec::new();
    for (ci, cfg) in configs.iter().enumerate().take(n_configs) {
        let files = &reachable[&key(cfg)];
        // the configuration to switch into: the next one in the list (its private files are the candidates)
        let other = configs[(ci + 1) % configs.len()].clone();
        let other_files: Vec<String> = reachable[&key(&other)].iter().filter(|f| !files.contains(f)).cloned().collect();
        for mode in [RepairMode::R1CheckAll, RepairMode::R2Repoint, RepairMode::R3RestoreOldMtime] {
            let r3 = mode == RepairMode::R3RestoreOldMtime;
            for kind in &kinds {
                if r3 && matches!(kind, FaultKind::Deleted) {
                    continue; // a path fault: the application initialises again anyway (see repair())
                }
                // quick tier: the first configuration, the kinds that can load (the session then holds the time stamp of the
                // faulted file, which is LATER than the restored one) and two representatives of those that cannot
                if r3 && !all_params && (ci != 0 || !matches!(kind, FaultKind::TruncEntries(_) | FaultKind::TruncBytes(_) | FaultKind::ExtraRuleKey(_) | FaultKind::AsciiFlip(_) | FaultKind::Empty | FaultKind::WrongTopType)) {
                    continue;
                }
                for file in files {
                    let pristine = ctx.base.files.get(file.strip_prefix(MOUNT_A).unwrap_or(file).trim_start_matches('/'));
                    let applicable = match kind {
                        FaultKind::Deleted => true,
                        k => pristine.map(|b| faults::mutate(k, b, file).is_some()).unwrap_or(false),
                    };
                    if !applicable {
                        continue;
                    }
                    for phase in [Phase::Cold, Phase::Warm] {
                        if r3 && phase == Phase::Cold {
                            continue; // nothing was loaded before the fault: same as R1
                        }
                        cases.push(Case { config: cfg.clone(), other: None, file: file.clone(), kind: kind.clone(), phase, mode: mode.clone() });
                    }
                    if file.ends_with("unicode-full.yaml") {
                        cases.push(Case { config: cfg.clone(), other: None, file: file.clone(), kind: kind.clone(), phase: Phase::BeforeLazyFull, mode: mode.clone() });
                    }
                }
                for file in &other_files {
                    let pristine = ctx.base.files.get(file.strip_prefix(MOUNT_A).unwrap_or(file).trim_start_matches('/'));
                    let applicable = match kind {
                        FaultKind::Deleted => true,
                        k => pristine.map(|b| faults::mutate(k, b, file).is_some()).unwrap_or(false),
                    };
                    if !applicable {
                        continue;
                    }
                    for phase in [Phase::SwitchInto, Phase::SwitchBackOut, Phase::SwitchTouchBack] {
                        if r3 && phase != Phase::SwitchInto {
                            continue;
                        }
                        cases.push(Case { config: cfg.clone(), other: Some(other.clone()), file: file.clone(), kind: kind.clone(), phase, mode: mode.clone() });
                    }
                }
            }
            // the user's own preference file (<config dir>/MathCAT/prefs.yaml): only a repair in place makes sense
            if ci == 0 && mode == RepairMode::R1CheckAll {
                let up = crate::world::user_prefs_path().to_string_lossy().to_string();
                for kind in &kinds {
                    let applicable = match kind {
                        FaultKind::Deleted => true,
                        k => faults::mutate(k, VALID_USER_PREFS.as_bytes(), &up).is_some(),
                    };
                    if applicable {
                        for phase in [Phase::Cold, Phase::Warm] {
                            cases.push(Case { config: cfg.clone(), other: None, file: up.clone(), kind: kind.clone(), phase, mode: mode.clone() });
                        }
                    }
                }
            }
            // directory faults: language dir, region dir, SharedRules, braille code dir, Intent, the rules dir itself
            let mut dirs: BTreeSet<String> = BTreeSet::new();
            for f in files {
                let mut p = std::path::Path::new(f).parent();
                while let Some(d) = p {
                    let ds = d.to_string_lossy().to_string();
                    if ds.len() < MOUNT_A.len() {
                        break;
                    }
                    dirs.insert(ds);
                    p = d.parent();
                }
            }
            for d in dirs {
                if r3 {
                    break;
                }
                for kind in [FaultKind::DirMissing, FaultKind::DirIsFile] {
                    for phase in [Phase::Cold, Phase::Warm] {
                        cases.push(Case { config: cfg.clone(), other: None, file: d.clone(), kind: kind.clone(), phase, mode: mode.clone() });
                    }
                }
            }
        }
    }
    Ok(Enumeration { cases, reachable })
}

// ---------------------------------------------------------------------------------------------------
// Free exploration: overlapping faults on several layers, any order of fault / call / repair, CheckRuleFiles
// switched while a fault is outstanding, language switches into and out of broken files, transient read errors.

pub fn random_trace(seed: u64, ctx: &Arc<ExecCtx>, reachable: &BTreeMap<String, Vec<String>>) -> Trace {
    let mut rng = Rng::stream(seed, "c14-workload");
    let mut t = Trace::new("C14", "C14");
    t.origin = format!("random seed={}", seed);
    t.world.lib_rand_seed = seed;
    t.world.dir_order = if rng.chance(0.3) { Some(rng.next_u64()) } else { None };
    let configs = base_configs();
    let cfg = rng.pick(&configs).clone();
    let keyf = |c: &Config| format!("{}/{}/{}", c.lang, c.style, c.code);
    let mut s: Vec<Step> = Vec::new();
    let cold = rng.chance(0.3);
    let exprs = [pools::EXPR_NEEDS_FULL_UNICODE, 2, 3, 10, 12, 15];
    let all_kinds = {
        let mut k = faults::file_fault_kinds();
        k.push(FaultKind::TruncEntries(0));
        k
    };
    let mut cur = cfg.clone();
    let mut check = rng.pick(&["All", "All", "All", "Prefs"]).to_string();
    let mut faulted: Vec<String> = Vec::new();
    let pick_fault = |rng: &mut Rng, c: &Config| -> Option<Step> {
        let files = reachable.get(&keyf(c))?;
        for _ in 0..10 {
            let f = rng.pick(files).clone();
            let kind = rng.pick(&all_kinds).clone();
            let kind = match kind {
                FaultKind::TruncBytes(_) => FaultKind::TruncBytes(rng.range(1, 999)),
                FaultKind::TruncEntries(_) => FaultKind::TruncEntries(rng.range(0, 999)),
                FaultKind::InvalidXpath(_) => FaultKind::InvalidXpath(rng.range(0, 999)),
                FaultKind::UnknownReplacementKey(_) => FaultKind::UnknownReplacementKey(rng.range(0, 999)),
                FaultKind::InvalidUtf8(_) => FaultKind::InvalidUtf8(rng.range(0, 999)),
                k => k,
            };
            let pristine = ctx.base.files.get(f.strip_prefix(MOUNT_A).unwrap_or(&f).trim_start_matches('/'));
            let ok = match &kind {
                FaultKind::Deleted => true,
                k => pristine.map(|b| faults::mutate(k, b, &f).is_some()).unwrap_or(false),
            };
            if ok {
                return Some(Step::Env(EnvEvent::Fault { path: f, kind }));
            }
        }
        None
    };
    if cold {
        if let Some(f) = pick_fault(&mut rng, &cfg) {
            if let Step::Env(EnvEvent::Fault { path, .. }) = &f {
                faulted.push(path.clone());
            }
            s.push(f);
        }
    }
    s.push(ensure_step(MOUNT_A, &cfg, &check, true));
    if !cold {
        s.push(probe_step("base", *rng.pick(&exprs)));
    }
    let n_events = rng.range(3, 10);
    let mut round = 0;
    for _ in 0..n_events {
        s.push(clock(*rng.pick(&[1u64, 20, 1000, 5000, 3_600_000])));
        match rng.below(10) {
            0..=2 if faulted.len() < 3 => {
                // fault on the current configuration or on one we may switch into
                let target = if rng.chance(0.6) { cur.clone() } else { rng.pick(&configs).clone() };
                if let Some(f) = pick_fault(&mut rng, &target) {
                    if let Step::Env(EnvEvent::Fault { path, .. }) = &f {
                        faulted.push(path.clone());
                    }
                    s.push(f);
                }
            }
            3 => {
                if !faulted.is_empty() {
                    let i = rng.below(faulted.len());
                    let p = faulted.remove(i);
                    // one repair in five is a restore from a backup with the old time stamp
                    s.push(Step::Env(EnvEvent::Repair { path: p, keep_mtime: rng.chance(0.2) }));
                }
            }
            4 => {
                cur = rng.pick(&configs).clone();
                s.push(ensure_step(MOUNT_A, &cur, &check, false));
            }
            5 => {
                check = rng.pick(&["All", "Prefs", "None", "All"]).to_string();
                s.push(Step::Call(Op::SetPref("CheckRuleFiles".into(), check.clone())));
            }
            6 => {
                // transient read error inside the next probe
                let step = s.len();
                t.injections.push(Injection {
                    session: 0,
                    step,
                    sub: rng.range(4, 13),
                    nth: rng.range(1, 6),
                    kind: rng.pick(&[InjectKind::ReadEio, InjectKind::ReadEacces, InjectKind::ReadNotFound, InjectKind::MtimeUnavailable]).clone(),
                    sticky: rng.chance(0.5),
                });
                round += 1;
                s.push(probe_step(&format!("r{}", round), *rng.pick(&exprs)));
            }
            _ => {
                round += 1;
                s.push(probe_step(&format!("r{}", round), *rng.pick(&exprs)));
            }
        }
    }
    // all faults stop; repair everything; the next round must be right (bounded liveness: within one call per output)
    s.push(clock(2000));
    let repoint = rng.chance(0.3);
    if repoint {
        s.push(ensure_step(MOUNT_B, &cur, "Prefs", true));
    } else {
        s.push(Step::Env(EnvEvent::RepairAll));
        s.push(Step::Check { kind: "settle".into(), args: json!({}) });
        s.push(ensure_step(MOUNT_A, &cur, "All", true));
    }
    s.push(probe_step("final", *rng.pick(&exprs)));
    s.push(expect_ref_step("final", if repoint { MOUNT_B } else { MOUNT_A }));
    t.sessions = vec![s];
    t
}
