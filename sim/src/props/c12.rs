//! C12 — preferences read back as set, persist, and bad settings are rejected (history half).
//! Reference model: a map name -> string with the documented normalisations of set_preference.
use std::collections::{BTreeMap, HashSet};

use crate::exec::*;
use crate::pools;
use crate::props::c08::{pref_value_for, random_pref_name};
use crate::props::common::*;
use crate::rng::Rng;
use crate::simfs::*;
use crate::trace::*;
use crate::world::user_prefs_path;

pub struct C12Checker {
    names: Vec<String>,
    model: BTreeMap<String, String>,
    bool_prefs: HashSet<String>,
    api_set: HashSet<String>,
    /// a prefs.yaml changed on disk: values not set through the API may legitimately change at the next re-read
    file_event_pending: bool,
    before_outputs: Option<Outputs>,
    initialised: bool,
    /// without a user configuration directory MathCAT re-reads prefs.yaml on every call: values that were not set
    /// through set_preference (NavMode written by navigation commands) may fall back to the file value at any call
    no_user_dir: bool,
    /// every accepted set_preference, in order (replayed into the fresh reference session)
    accepted: Vec<(String, String)>,
    /// the user's prefs.yaml was deleted: like every disappearing file this is not noticed by the time-stamp check
    /// (a failed mtime lookup counts as "unchanged"); nothing in the statement covers it, so the comparison with a
    /// fresh session (which does not see the file) is switched off for the rest of the run
    user_prefs_removed: bool,
}

/// preferences whose value MathCAT derives from others (Language / DecimalSeparator) or rewrites itself (navigation)
const DERIVED: &[&str] = &["DecimalSeparators", "BlockSeparators", "LanguageAuto", "NavMode"];

fn braille_only(name: &str) -> bool {
    name == "BrailleCode" || name == "BrailleNavHighlight" || name == "UseSpacesAroundAllOperators" || name.starts_with("UEB_") || name.starts_with("Vietnam_") || name.starts_with("LaTeX_")
}
fn speech_only(name: &str) -> bool {
    matches!(name, "SpeechStyle" | "Verbosity" | "TTS" | "Pitch" | "Rate" | "Volume" | "Bookmark" | "PauseFactor" | "MathRate")
        || name.starts_with("CapitalLetters_")
        || name.starts_with("ClearSpeak_")
        || name.starts_with("SpeechOverrides_")
}
fn nav_only(name: &str) -> bool {
    matches!(name, "NavMode" | "NavVerbosity" | "Overview" | "AutoZoomOut" | "ResetNavMode" | "ResetOverview" | "ResetOverView")
}

pub fn normalise_language(value: &str) -> Option<String> {
    if value == "Auto" {
        return Some("Auto".into());
    }
    let mut it = value.split('-');
    let lang = it.next().unwrap_or("");
    let country = it.next().unwrap_or("");
    if lang.len() != 2 {
        return None;
    }
    Some(if country.is_empty() { lang.to_string() } else { format!("{}-{}", lang, country) })
}

impl C12Checker {
    pub fn new(t: &Trace, _s: usize) -> C12Checker {
        C12Checker { names: vec![], model: BTreeMap::new(), bool_prefs: HashSet::new(), api_set: HashSet::new(), file_event_pending: false, before_outputs: None, initialised: false, no_user_dir: !t.world.user_config_dir, accepted: vec![], user_prefs_removed: false }
    }

    fn snapshot(&mut self, s: &mut Sess) -> BTreeMap<String, String> {
        s.read_prefs(&self.names.clone()).into_iter().collect()
    }

    fn init_model(&mut self, s: &mut Sess) {
        self.names = pref_names(&s.ctx.base);
        let snap = self.snapshot(s);
        self.bool_prefs = snap.iter().filter(|(_, v)| v.as_str() == "true" || v.as_str() == "false").map(|(k, _)| k.clone()).collect();
        self.model = snap;
        self.initialised = true;
    }

    /// compare the full snapshot with the model; `changed` = the names this step may change (with their expected value)
    fn check_frame(&mut self, s: &mut Sess, what: &str, allowed: &[&str]) {
        let snap = self.snapshot(s);
        for (n, v) in &snap {
            let exp = self.model.get(n);
            if exp == Some(v) {
                continue;
            }
            // DecimalSeparators/BlockSeparators are recomputed from Language / taken from the files whenever the
            // preference files are (re)read; only their immediate read-back is promised (their effect on outputs is C10's)
            let seps_derived = matches!(n.as_str(), "DecimalSeparators" | "BlockSeparators");
            let derived_ok = allowed.contains(&n.as_str()) || seps_derived;
            let file_ok = (self.file_event_pending || self.no_user_dir) && !self.api_set.contains(n);
            let derived_after_file = self.file_event_pending && DERIVED.contains(&n.as_str());
            if derived_ok || file_ok || derived_after_file {
                continue;
            }
            let api = if self.api_set.contains(n) { " (set through the API)" } else { "" };
            s.violation_g(
                "preference-changed",
                format!("{} changed by {}", if self.api_set.contains(n) { "a preference set through the API" } else { "a preference" }, what),
                format!("preference changed by {}", what),
                format!("{}{}: model {:?}, read back {:?}", n, api, exp, v),
            );
            break;
        }
        // re-synchronise (legitimate changes only; after a violation the run stops anyway)
        self.model = snap;
    }
}

impl Checker for C12Checker {
    fn before_step(&mut self, s: &mut Sess, step: &Step) {
        self.before_outputs = None;
        if let Step::Call(Op::SetPref(_, _)) = step {
            if self.initialised && s.cur_mathml.is_some() {
                self.before_outputs = Some(read_outputs(s));
            }
        }
    }

    fn after_call(&mut self, s: &mut Sess, op: &Op, res: &Res) {
        match op {
            Op::SetRulesDir(_) => {
                if res.is_ok() {
                    if !self.initialised {
                        self.init_model(s);
                    } else {
                        // re-initialisation re-reads the files; API-set values persist
                        self.file_event_pending = true;
                        self.check_frame(s, "set_rules_dir", DERIVED);
                        self.file_event_pending = false;
                    }
                }
            }
            Op::SetPref(name, value) if !self.initialised => {
                // before set_rules_dir there is no table to check against, but an accepted call still counts
                if res.is_ok() {
                    self.accepted.push((name.clone(), value.clone()));
                }
            }
            Op::SetPref(name, value) if self.initialised => {
                let known = self.model.contains_key(name);
                let is_float = pools::FLOAT_PREFS.contains(&name.as_str());
                let is_bool = self.bool_prefs.contains(name);
                let lower = value.to_lowercase();
                let value_is_bool = lower == "true" || lower == "false";
                match res {
                    Res::Ok(_) => {
                        // what must have been rejected
                        if !known {
                            s.violation("unknown-preference-accepted", "set_preference accepted an unknown name".into(), format!("set_preference({:?},{:?}) returned Ok", name, value));
                            return;
                        }
                        if is_bool && !value_is_bool {
                            s.violation("wrong-kind-accepted", "non-boolean value accepted for a boolean preference".into(), format!("set_preference({:?},{:?}) returned Ok", name, value));
                            return;
                        }
                        if is_float && value.parse::<f64>().is_err() {
                            s.violation("wrong-kind-accepted", "non-number accepted for a number preference".into(), format!("set_preference({:?},{:?}) returned Ok", name, value));
                            return;
                        }
                        // read back with the documented normalisations
                        let expected = if name == "Language" || name == "LanguageAuto" {
                            normalise_language(value).unwrap_or_else(|| value.clone())
                        } else if is_bool {
                            lower.clone()
                        } else if is_float {
                            value.parse::<f64>().map(|f| f.to_string()).unwrap_or_else(|_| value.clone())
                        } else {
                            value.clone()
                        };
                        let got = s.call(&Op::GetPref(name.clone()));
                        if got.ok() != Some(expected.as_str()) {
                            s.violation_g(
                                "read-back-mismatch",
                                format!("{} does not read back as set", if is_float { "a number preference" } else if is_bool { "a boolean preference" } else { name.as_str() }),
                                "preference does not read back as set".into(),
                                format!("set_preference({:?},{:?}) returned Ok; expected read-back {:?}, got {}", name, value, expected, got.short()),
                            );
                            return;
                        }
                        s.probe("read_back_ok");
                        self.accepted.push((name.clone(), value.clone()));
                        self.model.insert(name.clone(), expected);
                        self.api_set.insert(name.clone());
                        // everything else is unchanged, except documented derivations
                        let mut allowed: Vec<&str> = vec![];
                        if matches!(name.as_str(), "Language" | "LanguageAuto" | "DecimalSeparator") {
                            allowed.extend(["DecimalSeparators", "BlockSeparators", "LanguageAuto"]);
                        }
                        self.check_frame(s, "an accepted set_preference of another name", &allowed);
                        // frame on outputs
                        if let Some(before) = self.before_outputs.clone() {
                            let after = read_outputs(s);
                            // error texts quote the live tree (which braille annotates): only Ok outputs are compared
                            let same = |a: &Res, b: &Res| (a.is_err() && b.is_err()) || norm(a) == norm(b);
                            let mut bad: Option<&str> = None;
                            if braille_only(name) && (!same(&before.speech, &after.speech) || !same(&before.overview, &after.overview)) {
                                bad = Some("a braille preference changed speech or overview");
                            } else if speech_only(name) && !same(&before.braille, &after.braille) {
                                bad = Some("a speech preference changed braille");
                            } else if nav_only(name) && (!same(&before.speech, &after.speech) || !same(&before.braille, &after.braille) || !same(&before.overview, &after.overview)) {
                                bad = Some("a navigation preference changed speech, braille or overview");
                            }
                            if let Some(b) = bad {
                                s.violation("frame-violated", b.into(), format!("set_preference({:?},{:?})\nbefore: {:?}\nafter: {:?}", name, value, before, after));
                            } else if braille_only(name) || speech_only(name) || nav_only(name) {
                                s.probe("frame_held");
                            }
                        }
                    }
                    Res::Err(_) => {
                        s.probe("set_rejected");
                        // a rejected request leaves everything as before, so the same request is rejected again
                        if !self.file_event_pending {
                            let again = s.call(op);
                            if again.is_ok() {
                                s.violation_g(
                                    "rejected-then-accepted",
                                    format!("the same set_preference({}) is rejected and then accepted", if is_float { "<number preference>" } else if is_bool { "<boolean preference>" } else { name.as_str() }),
                                    "the same set_preference is rejected and then accepted".into(),
                                    format!("set_preference({:?},{:?}): first {}, repeated immediately: Ok", name, value, res.short()),
                                );
                                return;
                            }
                            s.probe("rejection_repeatable");
                        }
                        // nothing changed: no preference, no output
                        self.check_frame(s, "a rejected set_preference", &[]);
                        if let Some(before) = self.before_outputs.clone() {
                            let after = read_outputs(s);
                            let same = |a: &Res, b: &Res| (a.is_err() && b.is_err()) || norm(a) == norm(b);
                            if !same(&before.speech, &after.speech) || !same(&before.braille, &after.braille) || !same(&before.overview, &after.overview) {
                                s.violation("rejected-set-changed-output", "a rejected set_preference changed an output".into(), format!("set_preference({:?},{:?})\nbefore: {:?}\nafter: {:?}", name, value, before, after));
                            } else {
                                s.probe("rejected_set_left_outputs");
                            }
                        }
                    }
                    Res::Panic(_, _) => {}
                }
            }
            Op::SetMathml(_) if self.initialised => {
                self.check_frame(s, "set_mathml", &[]);
                s.probe("persisted_across_set_mathml");
                // the re-read of a changed prefs.yaml happens here at the latest, unless file checking is off
                if self.model.get("CheckRuleFiles").map(|v| v.as_str()) != Some("None") && res.is_ok() {
                    self.file_event_pending = false;
                }
            }
            Op::Cmd(_) | Op::Key { .. } if self.initialised => {
                self.check_frame(s, "a navigation command", &["NavMode"]);
            }
            Op::Speech | Op::Braille(_) | Op::Overview | Op::NodeFromPos(_) | Op::BraillePos | Op::NavBraille if self.initialised => {
                self.check_frame(s, op.name(), &[]);
            }
            _ => {}
        }
        let h = state_hash_of(&[op.name(), &res.is_ok().to_string(), &self.api_set.len().min(8).to_string(), &self.file_event_pending.to_string()]);
        s.state_hash(h);
    }

    fn on_check(&mut self, s: &mut Sess, kind: &str, _args: &serde_json::Value) {
        if kind != "prefs_vs_fresh" || !self.initialised {
            return;
        }
        if self.user_prefs_removed {
            s.probe("observed_removed_user_prefs_file");
            return;
        }
        // The preference values are a function of the preference files and of the accepted set_preference calls:
        // a fresh session on the same files that is given the same accepted calls must read back the same values.
        if self.model.get("CheckRuleFiles").map(|v| v.as_str()) == Some("None") {
            s.probe("prefs_vs_fresh_skipped_no_file_checking");
            return;
        }
        let Some(dir) = s.rules_dir.clone() else { return };
        let _ = s.call(&Op::SetMathml(ExprRef::Lit("<math><mi>x</mi></math>".into()))); // lets a pending re-read happen
        let snap = self.snapshot(s);
        let fs = s.world.lock().fs.clone();
        let names = self.names.clone();
        let accepted = self.accepted.clone();
        let r = reference_prefs(s, &fs, &dir, &accepted, &names, !self.no_user_dir);
        for (n, v) in &snap {
            if DERIVED.contains(&n.as_str()) {
                continue; // written by MathCAT itself (navigation, Language=Auto, separators)
            }
            if r.get(n) != Some(v) {
                let api = if self.api_set.contains(n) { "a preference set through the API" } else { "a preference that was never set through the API" };
                s.violation_g(
                    "preferences-not-reproducible",
                    format!("{} differs from a fresh session with the same files and the same accepted set_preference calls", api),
                    "preference differs from a fresh session with the same files and accepted calls".into(),
                    format!("{}: session {:?}, fresh session {:?}\naccepted calls replayed: {:?}", n, v, r.get(n), accepted),
                );
                return;
            }
        }
        s.probe("prefs_equal_fresh_session");
        self.model = snap;
        self.file_event_pending = false;
    }

    fn after_env(&mut self, s: &mut Sess, ev: &EnvEvent, outcome: &str) {
        if matches!(ev, EnvEvent::RemoveUserPrefs) && outcome == "applied" {
            self.user_prefs_removed = true;
        }
        if matches!(ev, EnvEvent::WriteUserPrefs { .. }) && outcome == "applied" {
            self.user_prefs_removed = false;
        }
        if matches!(ev, EnvEvent::Touch { .. } | EnvEvent::WriteUserPrefs { .. } | EnvEvent::RemoveUserPrefs | EnvEvent::EditSysPref { .. }) && outcome == "applied" {
            self.file_event_pending = true;
            s.probe("prefs_file_event");
        }
    }
}

// ---------------------------------------------------------------------------------------------------

pub fn random_trace(seed: u64, names: &[String]) -> Trace {
    let mut rng = Rng::stream(seed, "c12-workload");
    let mut t = Trace::new("C12", "C12");
    t.origin = format!("random seed={}", seed);
    t.world.lib_rand_seed = seed;
    t.world.user_config_dir = rng.chance(0.85);
    let mut s: Vec<Step> = vec![Step::Call(Op::SetRulesDir(MOUNT_A.into()))];
    let with_files = rng.chance(0.35); // configuration E: prefs.yaml files change on disk between calls
    if with_files && rng.chance(0.3) {
        s.push(Step::Call(Op::SetPref("CheckRuleFiles".into(), rng.pick(&["All", "Prefs"]).to_string())));
    }
    let n_valid = pools::VALID_EXPRS.len();
    s.push(Step::Call(Op::SetMathml(ExprRef::Pool(rng.below(n_valid)))));
    let n = rng.range(5, 70);
    for _ in 0..n {
        match rng.below(20) {
            0..=10 => {
                let name = random_pref_name(&mut rng, names);
                let v = pref_value_for(&mut rng, &name);
                s.push(Step::Call(Op::SetPref(name, v)));
            }
            11 => s.push(Step::Call(Op::GetPref(random_pref_name(&mut rng, names)))),
            12 | 13 => s.push(Step::Call(Op::SetMathml(if rng.chance(0.15) {
                ExprRef::Corpus(rng.below(pools::corpus().len()))
            } else if rng.chance(0.85) {
                ExprRef::Pool(rng.below(n_valid))
            } else {
                ExprRef::Bad(rng.below(pools::INVALID_EXPRS.len()))
            }))),
            14 => s.push(Step::Call(rng.pick(&[Op::Speech, Op::Braille(IdRef::Empty), Op::Overview, Op::NodeFromPos(PosRef::Permille(500)), Op::BraillePos]).clone())),
            15 | 16 => s.push(Step::Call(Op::Cmd(crate::props::c11::random_nav_command(&mut rng)))),
            17 => {
                if rng.chance(0.3) {
                    s.push(Step::Call(Op::SetRulesDir(rng.pick(&[MOUNT_A, MOUNT_B]).to_string())));
                }
            }
            _ => {
                if with_files {
                    s.push(Step::Env(EnvEvent::Clock { ms: rng.range(1, 5000) as u64 }));
                    let ev = match rng.below(5) {
                        0 => EnvEvent::Touch { path: format!("{}/prefs.yaml", MOUNT_A) },
                        1 => EnvEvent::Touch { path: user_prefs_path().to_string_lossy().to_string() },
                        2 => EnvEvent::WriteUserPrefs { content: format!("---\n  Speech:\n    Verbosity: {}\n    SpeechStyle: {}\n  Braille:\n    BrailleCode: \"{}\"\n", rng.pick(pools::VERBOSITY), rng.pick(pools::SPEECH_STYLES), rng.pick(&["Nemeth", "UEB", "CMU"])) },
                        3 => {
                            let (name, value) = valid_file_pref(&mut rng);
                            EnvEvent::EditSysPref { mount: MOUNT_A.into(), name, value }
                        }
                        _ => EnvEvent::RemoveUserPrefs,
                    };
                    s.push(Step::Env(ev));
                    // something that makes MathCAT look at the files again
                    s.push(Step::Call(rng.pick(&[Op::Speech, Op::SetMathml(ExprRef::Pool(2)), Op::Braille(IdRef::Empty)]).clone()));
                    if rng.chance(0.5) {
                        s.push(Step::Check { kind: "prefs_vs_fresh".into(), args: serde_json::Value::Null });
                    }
                }
            }
        }
    }
    s.push(Step::Call(Op::SetMathml(ExprRef::Pool(rng.below(n_valid)))));
    s.push(Step::Check { kind: "prefs_vs_fresh".into(), args: serde_json::Value::Null });
    t.sessions = vec![s];
    t
}

pub fn directed(names: &[String]) -> Vec<Trace> {
    let mut v = Vec::new();
    let mk = |name: String, user_dir: bool, steps: Vec<Step>| {
        let mut t = Trace::new("C12", "C12");
        t.origin = format!("directed {}", name);
        t.world.user_config_dir = user_dir;
        let mut s = vec![Step::Call(Op::SetRulesDir(MOUNT_A.into())), Step::Call(Op::SetMathml(ExprRef::Pool(5)))];
        s.extend(steps);
        t.sessions = vec![s];
        t
    };
    let set = |n: &str, val: &str| Step::Call(Op::SetPref(n.to_string(), val.to_string()));
    // every name x value classes (one trace per name)
    let values = ["true", "FALSE", "1.5", "NaN", "", "Auto", "maybe", "0", "Terse", "en-gb-oxford", "UEB", "SSML"];
    for n in names.iter().chain(["NoSuchPref".to_string(), "language".to_string()].iter()) {
        let mut steps = Vec::new();
        for val in values {
            steps.push(set(n, val));
            steps.push(Step::Call(Op::SetMathml(ExprRef::Pool(5))));
        }
        v.push(mk(format!("values-{}", n), true, steps));
    }
    // configuration E: an API-set value survives a touch / rewrite of the preference files
    for user_dir in [true, false] {
        v.push(mk(
            format!("api-value-survives-touch-userdir-{}", user_dir),
            user_dir,
            vec![
                set("Verbosity", "Terse"),
                set("Language", "sv"),
                set("BrailleCode", "UEB"),
                Step::Env(EnvEvent::Clock { ms: 1000 }),
                Step::Env(EnvEvent::Touch { path: format!("{}/prefs.yaml", MOUNT_A) }),
                Step::Call(Op::Speech),
                Step::Call(Op::SetMathml(ExprRef::Pool(5))),
                Step::Env(EnvEvent::Clock { ms: 1000 }),
                Step::Env(EnvEvent::WriteUserPrefs { content: "---\n  Speech:\n    Verbosity: Verbose\n  Navigation:\n    NavVerbosity: Terse\n".into() }),
                Step::Call(Op::SetMathml(ExprRef::Pool(5))),
                Step::Call(Op::Speech),
                Step::Env(EnvEvent::Clock { ms: 1000 }),
                Step::Env(EnvEvent::EditSysPref { mount: MOUNT_A.into(), name: "Language".into(), value: "es".into() }),
                Step::Call(Op::SetMathml(ExprRef::Pool(5))),
                Step::Call(Op::Speech),
                Step::Call(Op::SetRulesDir(MOUNT_A.into())),
                Step::Call(Op::SetMathml(ExprRef::Pool(5))),
            ],
        ));
    }
    // a rejected request must leave no trace: when the files later change that very preference the session follows them
    let cmp = || Step::Check { kind: "prefs_vs_fresh".into(), args: serde_json::Value::Null };
    for (name, bad, file_value) in [("Language", "zh", "es"), ("Verbosity", "", "Terse"), ("BrailleNavHighlight", "", "Off"), ("NavVerbosity", "", "Terse")] {
        let mut steps = vec![];
        if !bad.is_empty() {
            steps.push(set(name, bad));
        }
        steps.push(set("AutoZoomOut", "maybe"));
        steps.push(set("Overview", "yes"));
        steps.push(set("UseSpacesAroundAllOperators", "1"));
        steps.push(Step::Env(EnvEvent::Clock { ms: 1000 }));
        steps.push(Step::Env(EnvEvent::EditSysPref { mount: MOUNT_A.into(), name: name.into(), value: file_value.into() }));
        steps.push(Step::Env(EnvEvent::EditSysPref { mount: MOUNT_A.into(), name: "AutoZoomOut".into(), value: "false".into() }));
        steps.push(Step::Env(EnvEvent::EditSysPref { mount: MOUNT_A.into(), name: "Overview".into(), value: "true".into() }));
        steps.push(Step::Env(EnvEvent::EditSysPref { mount: MOUNT_A.into(), name: "UseSpacesAroundAllOperators".into(), value: "true".into() }));
        steps.push(Step::Call(Op::SetMathml(ExprRef::Pool(5))));
        steps.push(cmp());
        // the same for a value equal to the current one (accepted: it must then override the file)
        steps.push(set("SpeechStyle", "ClearSpeak"));
        steps.push(Step::Env(EnvEvent::Clock { ms: 1000 }));
        steps.push(Step::Env(EnvEvent::EditSysPref { mount: MOUNT_A.into(), name: "SpeechStyle".into(), value: "SimpleSpeak".into() }));
        steps.push(Step::Call(Op::SetMathml(ExprRef::Pool(5))));
        steps.push(cmp());
        v.push(mk(format!("rejected-set-then-file-changes-{}", name), true, steps));
    }
    // the user changes a preference in the file and the FIRST call that notices it is one that temporarily rewrites that
    // preference itself (cursor routing and the highlight style) or one of each other kind
    for (k, first) in [Op::NodeFromPos(PosRef::Abs(1)), Op::Braille(IdRef::Nth(2)), Op::BraillePos, Op::Cmd("MoveNext".into()), Op::Overview, Op::NavBraille].iter().enumerate() {
        let mut steps = vec![Step::Call(Op::Speech), Step::Call(Op::Braille(IdRef::Empty))];
        for (name, value) in [("BrailleNavHighlight", "Off"), ("Verbosity", "Terse"), ("NavVerbosity", "Terse"), ("BrailleNavHighlight", "All")] {
            steps.push(Step::Env(EnvEvent::Clock { ms: 1000 }));
            steps.push(Step::Env(EnvEvent::EditSysPref { mount: MOUNT_A.into(), name: name.into(), value: value.into() }));
            steps.push(Step::Call(first.clone()));
            steps.push(cmp());
            steps.push(Step::Call(Op::SetMathml(ExprRef::Pool(5))));
            steps.push(cmp());
        }
        v.push(mk(format!("file-change-first-noticed-by-{}-{}", k, first.name()), true, steps));
    }
    // language flows
    v.push(mk(
        "language-auto-flows".into(),
        true,
        vec![set("Language", "sv"), set("Language", "Auto"), set("LanguageAuto", "en"), set("LanguageAuto", "es-mx-x"), set("Language", "fi"), set("LanguageAuto", "en"), set("Language", "Auto"), set("LanguageAuto", "Auto"), set("Language", "e"), set("Language", "en-gb")],
    ));
    // scope: under every braille code and speech engine, switching the speech-only preferences leaves braille as it was
    // (and the braille-only ones leave speech and overview), over expressions with chemistry, tables, capitals, numbers
    for (ci, code) in pools::BRAILLE_CODES.iter().enumerate() {
        for tts in ["None", "SSML", "SAPI5"] {
            let mut steps = vec![set("BrailleCode", code), set("TTS", tts)];
            for (k, e) in [59usize, 60, 2, 10, 50, 55, 7, 18, pools::expr_brackets() - 1].iter().enumerate() {
                if (k + ci) % 2 == 1 && tts != "SAPI5" {
                    continue; // half of the expressions per (code, engine), all of them under SAPI5
                }
                steps.push(Step::Call(Op::SetMathml(ExprRef::Pool(*e))));
                for (n, val) in [("Bookmark", "true"), ("Verbosity", "Verbose"), ("SpeechStyle", "SimpleSpeak"), ("CapitalLetters_UseWord", "false"), ("PauseFactor", "300"), ("Bookmark", "false"), ("Verbosity", "Terse"), ("SpeechStyle", "ClearSpeak"), ("CapitalLetters_UseWord", "true"), ("PauseFactor", "100"), ("BrailleNavHighlight", "All"), ("BrailleNavHighlight", "EndPoints")] {
                    steps.push(set(n, val));
                }
            }
            v.push(mk(format!("scope-{}-{}", code, tts), true, steps));
        }
    }
    // a rejected file-selecting preference (no such braille code has no fallback problem; a missing style falls back)
    // an accepted value must also survive calls that FAIL: the lazily read Braille/<code>/unicode-full.yaml is broken, the
    // expression needs it, and every braille query (which saves, overrides and restores BrailleNavHighlight) fails inside
    for code in ["Nemeth", "UEB", "CMU"] {
        for style in ["All", "Off", "FirstChar"] {
            for kind in [FaultKind::Empty, FaultKind::WrongTopType, FaultKind::Deleted] {
                let mut steps = vec![Step::Env(EnvEvent::Fault { path: format!("{}/Braille/{}/unicode-full.yaml", MOUNT_A, code), kind: kind.clone() })];
                steps.push(set("BrailleCode", code));
                steps.push(set("BrailleNavHighlight", style));
                steps.push(set("Verbosity", "Terse"));
                for k in 0..4 {
                    steps.push(Step::Call(Op::NodeFromPos(PosRef::Abs(k))));
                }
                steps.push(Step::Call(Op::BraillePos));
                steps.push(Step::Call(Op::Braille(IdRef::Nth(2))));
                steps.push(Step::Call(Op::GetPref("BrailleNavHighlight".into())));
                steps.push(Step::Call(Op::SetMathml(ExprRef::Pool(2))));
                steps.push(Step::Call(Op::Braille(IdRef::Nth(1))));
                steps.push(Step::Call(Op::GetPref("BrailleNavHighlight".into())));
                v.push(mk(format!("failing-braille-queries-{}-{}-{}", code, style, crate::faults::kind_name(&kind)), true, steps));
            }
        }
    }
    v.push(mk("rejected-then-accepted".into(), true, vec![set("Language", "xx-yy"), set("BrailleCode", "NoSuchCode"), set("SpeechStyle", "NoSuchStyle"), set("Language", "toolong"), set("Pitch", "high"), set("Pitch", "2"), set("Bookmark", "yes"), set("Bookmark", "TRUE")]));
    v
}
