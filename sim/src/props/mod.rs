//! Property checkers: each interprets the `Check` steps of its traces and watches every API call.
use crate::exec::Checker;
use crate::trace::Trace;

pub mod c08;
pub mod c09;
pub mod c10;
pub mod c11;
pub mod c12;
pub mod c14;
pub mod c20;
pub mod common;

pub struct Nop;
impl Checker for Nop {}

pub fn make_checker(trace: &Trace, session: usize) -> Box<dyn Checker> {
    match trace.checker.as_str() {
        "C14" => Box::new(c14::C14Checker::new(trace, session)),
        "C11" => Box::new(c11::C11Checker::new(trace, session)),
        "C08" => Box::new(c08::C08Checker::new(trace, session)),
        "C12" => Box::new(c12::C12Checker::new(trace, session)),
        "C09" => Box::new(c09::C09Checker::new(trace, session)),
        "C10" => Box::new(c10::C10Checker::new(trace, session)),
        "C20" => Box::new(c20::C20Checker::new(trace, session)),
        _ => Box::new(Nop),
    }
}
