//! C11 — navigation always rests on a node of the current expression.
//! Reference model (public API only): current position, undo stack, ten place markers.
use regex::Regex;
use std::sync::OnceLock;

use crate::exec::*;
use crate::props::common::gen_expr;
use crate::pools;
use crate::rng::Rng;
use crate::simfs::*;
use crate::trace::*;

type Pos = (String, usize);

#[derive(Clone, Debug, PartialEq)]
enum Mark {
    Unset,
    Set(Pos),
    /// the statement promises nothing about it (e.g. after a failed set_mathml)
    Unknown,
}

pub struct C11Checker {
    cur: Option<Pos>,
    undo: Vec<Pos>,
    /// the model lost track of the undo stack depth (after a failed undo); undo is unconstrained until the next reset
    undo_unknown: bool,
    marks: Vec<Mark>,
    moves: u64,
}

/// mirror of MathCAT's built-in key bindings: which command a key press stands for (None: the call must fail)
pub fn key_to_command(key: usize, shift: bool, ctrl: bool, alt: bool, meta: bool) -> Option<String> {
    let arrows = [0x25usize, 0x27, 0x26, 0x28];
    let mut alt = alt;
    if alt && ctrl && arrows.contains(&key) {
        alt = false;
    }
    if alt || meta {
        return None;
    }
    let pick = |none: &str, sh: &str, ct: &str, both: &str| -> String {
        if shift && ctrl {
            both.to_string()
        } else if ctrl {
            ct.to_string()
        } else if shift {
            sh.to_string()
        } else {
            none.to_string()
        }
    };
    Some(match key {
        0x25 => pick("MovePrevious", "ReadPrevious", "MoveCellPrevious", "DescribePrevious"),
        0x27 => pick("MoveNext", "ReadNext", "MoveCellNext", "DescribeNext"),
        0x26 => pick("ZoomOut", "ToggleZoomLockUp", "MoveCellUp", "ZoomOutAll"),
        0x28 => pick("ZoomIn", "ToggleZoomLockDown", "MoveCellDown", "ZoomInAll"),
        0x0D => pick("WhereAmI", "Error", "WhereAmIAll", "Error"),
        0x20 => pick("ReadCurrent", "ToggleSpeakMode", "ReadCellCurrent", "DescribeCurrent"),
        0x24 => pick("MoveStart", "MoveColumnStart", "MoveLineStart", "Error"),
        0x23 => pick("MoveEnd", "MoveColumnEnd", "MoveLineEnd", "Error"),
        0x08 => "MoveLastLocation".to_string(),
        0x1B => "Exit".to_string(),
        0x30..=0x39 => {
            let d = key - 0x30;
            pick(&format!("MoveTo{}", d), &format!("Read{}", d), &format!("SetPlacemarker{}", d), &format!("Describe{}", d))
        }
        _ => return None,
    })
}

fn is_move(cmd: &str) -> bool {
    (cmd.starts_with("Move") || cmd.starts_with("Zoom")) && cmd != "MoveLastLocation"
}

fn first_tag_has_id(mathml: &str, id: &str) -> bool {
    static RE: OnceLock<Regex> = OnceLock::new();
    let re = RE.get_or_init(|| Regex::new(r"<[A-Za-z][^<>]*>").unwrap());
    match re.find(mathml) {
        None => false,
        Some(m) => {
            let t = m.as_str();
            t.contains(&format!("id='{}'", id)) || t.contains(&format!("id=\"{}\"", id))
        }
    }
}

impl C11Checker {
    pub fn new(_t: &Trace, _session: usize) -> C11Checker {
        C11Checker { cur: None, undo: vec![], undo_unknown: false, marks: vec![Mark::Unset; 10], moves: 0 }
    }

    fn actual(&mut self, s: &mut Sess) -> Option<Pos> {
        match s.call(&Op::NavId) {
            Res::Ok(v) => Some(split_pair(&v)),
            _ => None,
        }
    }

    fn reset_to_root(&mut self, s: &Sess) {
        self.cur = s.cur_ids.first().map(|id| (id.clone(), 0));
        self.undo.clear();
        self.undo_unknown = false;
    }

    fn invariants(&mut self, s: &mut Sess, what: &str) -> Option<Pos> {
        if s.cur_ids.is_empty() {
            return None; // no expression has been set: nothing to rest on
        }
        let act = self.actual(s);
        let Some((id, off)) = act.clone() else {
            s.violation("nav-position-unavailable", format!("get_navigation_mathml_id fails after {}", what), String::new());
            return None;
        };
        if !s.cur_ids.contains(&id) {
            s.violation(
                "stale-nav-id",
                format!("navigation id not in current expression after {}", what),
                format!("current navigation id '{}' (offset {}) is not an id of the current expression {:?}", id, off, s.cur_ids),
            );
            return act;
        }
        match s.call(&Op::NavMathml) {
            Res::Ok(v) => {
                let (mml, _o) = split_pair(&v);
                if !first_tag_has_id(&mml, &id) {
                    s.violation("nav-mathml-mismatch", format!("get_navigation_mathml root lacks the navigation id after {}", what), format!("id '{}', mathml: {}", id, first_line(mml.trim(), 200)));
                }
            }
            r => {
                s.violation("nav-mathml-unavailable", format!("get_navigation_mathml fails after {}", what), r.short());
            }
        }
        // The statement promises that the node's MathML can be retrieved; braille of the node is only observed
        // (on the current tree it fails when a character offset is carried to a node it does not fit).
        if s.call(&Op::NavBraille).is_err() {
            s.probe("observed_nav_braille_err");
        }
        act
    }

    fn on_command(&mut self, s: &mut Sess, cmd: &str, res: &Res) {
        let what = cmd_class(cmd);
        let before = self.cur.clone();
        let Some(act) = self.invariants(s, &what) else { return };
        let Some(before) = before else {
            self.cur = Some(act);
            return;
        };
        if is_move(cmd) {
            self.moves += 1;
            if let Some(d) = cmd.strip_prefix("MoveTo").and_then(|d| d.parse::<usize>().ok()) {
                match self.marks[d].clone() {
                    Mark::Set(p) if res.is_ok() => {
                        if act.0 != p.0 {
                            s.violation("placemarker-miss", "MoveTo<k> does not return to the marked node".into(), format!("{}: marked {:?}, now at {:?}", cmd, p, act));
                        } else {
                            s.probe("moved_to_placemarker");
                        }
                    }
                    Mark::Unset if res.is_ok() => {
                        if act.0 != before.0 {
                            s.violation("placemarker-miss", "MoveTo<k> with no marker set moves".into(), format!("{}: was {:?}, now {:?}", cmd, before, act));
                        }
                    }
                    _ => {}
                }
            }
            // MathCAT records a move when the *node* changed (a move inside a leaf in Character mode is not undoable)
            if act.0 != before.0 {
                self.undo.push(before);
                s.probe("position_changed");
            } else if act.1 != before.1 {
                s.probe("observed_offset_only_move");
            }
            self.cur = Some(act);
        } else if cmd == "MoveLastLocation" {
            match (self.undo.pop(), self.undo_unknown) {
                (Some(expected), false) => {
                    if res.is_ok() {
                        if act.0 != expected.0 {
                            s.violation("undo-wrong", "MoveLastLocation does not return to the previous node".into(), format!("expected {:?}, now at {:?} (was at {:?})", expected, act, before));
                        } else {
                            s.probe("undo_returned");
                        }
                    } else {
                        self.undo_unknown = true;
                    }
                }
                _ => {
                    s.probe("undo_at_bottom");
                }
            }
            self.cur = Some(act);
        } else {
            // Read*, Describe*, WhereAmI*, Toggle*, SetPlacemarker*, Exit, unknown: must not move
            if act.0 != before.0 {
                s.violation("read-command-moved", format!("{} moved the navigation position", what), format!("{}: was {:?}, now {:?}", cmd, before, act));
            } else {
                s.probe("read_command_stayed");
            }
            if let Some(d) = cmd.strip_prefix("SetPlacemarker").and_then(|d| d.parse::<usize>().ok()) {
                self.marks[d] = if res.is_ok() { Mark::Set(act.clone()) } else { Mark::Unknown };
            }
            self.cur = Some(act);
        }
        let pos_index = s.cur_ids.iter().position(|i| Some(i) == self.cur.as_ref().map(|c| &c.0)).unwrap_or(999);
        let h = state_hash_of(&[s.cur_src.as_deref().unwrap_or(""), &pos_index.to_string(), &self.undo.len().min(6).to_string(), &what]);
        s.state_hash(h);
    }
}

fn cmd_class(cmd: &str) -> String {
    // command with digits removed: stable under shrinking across place-marker indices
    let c: String = cmd.chars().filter(|c| !c.is_ascii_digit()).collect();
    if pools::nav_all_commands().iter().any(|k| k == cmd) {
        c
    } else {
        "unknown-command".to_string()
    }
}

impl Checker for C11Checker {
    fn after_call(&mut self, s: &mut Sess, op: &Op, res: &Res) {
        match op {
            Op::SetMathml(_) => {
                if res.is_ok() {
                    self.reset_to_root(s);
                    self.marks = vec![Mark::Unset; 10];
                    s.probe("expression_changed");
                } else {
                    // the previous expression is kept; the position is back on its root; nothing is promised about markers
                    self.reset_to_root(s);
                    for m in self.marks.iter_mut() {
                        if *m != Mark::Unset {
                            *m = Mark::Unknown;
                        }
                    }
                }
                let before = self.cur.clone();
                if let Some(act) = self.invariants(s, "set_mathml") {
                    if before.is_some() && Some(&act) != before.as_ref() {
                        s.violation("not-reset-to-root", "position not on the whole expression after set_mathml".into(), format!("expected {:?}, got {:?}", before, act));
                    }
                }
            }
            Op::Cmd(c) => {
                if pools::nav_all_commands().iter().any(|k| k == c) {
                    self.on_command(s, c, res);
                } else if let Some(before) = self.cur.clone() {
                    // unknown command: an error, and the position stays
                    if let Some(act) = self.invariants(s, "unknown-command") {
                        if act != before {
                            s.violation("read-command-moved", "unknown-command moved the navigation position".into(), format!("{:?}: was {:?}, now {:?}", c, before, act));
                        }
                    }
                }
            }
            Op::Key { key, shift, ctrl, alt, meta } => match key_to_command(*key, *shift, *ctrl, *alt, *meta) {
                Some(c) if c != "Error" => self.on_command(s, &c, res),
                _ => {
                    if let Some(before) = self.cur.clone() {
                        if let Some(act) = self.invariants(s, "unmapped-key") {
                            if act != before {
                                s.violation("read-command-moved", "unmapped-key moved the navigation position".into(), format!("key {}: was {:?}, now {:?}", key, before, act));
                            }
                        }
                    }
                }
            },
            Op::SetNavNode(idref, off) => {
                let before = self.cur.clone();
                if let Some(act) = self.invariants(s, "set_navigation_node") {
                    if res.is_ok() {
                        // an accepted request puts the position exactly where it was asked to be (node and character offset)
                        let mut want = (s.resolve_id(idref), *off);
                        if matches!(idref, IdRef::Nav) {
                            want.0 = act.0.clone(); // "the node navigation rests on": only the offset is a request
                        }
                        if act != want {
                            s.violation("set-node-not-honoured", "set_navigation_node returned Ok but the position is not the requested node and offset".into(), format!("requested {:?}, position is {:?}", want, act));
                            return;
                        }
                        self.undo.clear();
                        self.undo_unknown = false;
                        self.cur = Some(act);
                        s.probe("set_navigation_node_ok");
                    } else if let Some(b) = before {
                        if act != b {
                            s.violation("read-command-moved", "failed set_navigation_node moved the navigation position".into(), format!("was {:?}, now {:?}", b, act));
                        }
                    }
                }
            }
            Op::SetRulesDir(_) | Op::GetVersion | Op::NavId | Op::NavMathml => {}
            _ => {
                // speech, braille, preferences, queries: none of them may move the position
                if let Some(before) = self.cur.clone() {
                    if let Some(act) = self.actual(s) {
                        if act != before {
                            s.violation("read-command-moved", format!("{} moved the navigation position", op.name()), format!("was {:?}, now {:?}", before, act));
                        }
                    }
                }
            }
        }
    }

    fn after_env(&mut self, _s: &mut Sess, _ev: &EnvEvent, _outcome: &str) {}
}

// ---------------------------------------------------------------------------------------------------

pub fn random_nav_command(rng: &mut Rng) -> String {
    match rng.below(100) {
        0..=44 => rng.pick(pools::NAV_MOVE).to_string(),
        45..=58 => rng.pick(pools::NAV_READ).to_string(),
        59..=70 => "MoveLastLocation".to_string(),
        71..=78 => format!("SetPlacemarker{}", rng.below(3)),
        79..=86 => format!("MoveTo{}", rng.below(4)),
        87..=89 => format!("{}{}", rng.pick(&["Read", "Describe"]), rng.below(3)),
        90..=93 => rng.pick(pools::NAV_TOGGLE).to_string(),
        94..=96 => rng.pick(pools::NAV_BAD).to_string(),
        _ => "Exit".to_string(),
    }
}

pub fn random_key(rng: &mut Rng) -> Op {
    Op::Key { key: *rng.pick(pools::KEYS), shift: rng.chance(0.3), ctrl: rng.chance(0.3), alt: rng.chance(0.05), meta: rng.chance(0.03) }
}

pub fn nav_pref_steps(rng: &mut Rng) -> Vec<Step> {
    let mut v = Vec::new();
    if rng.chance(0.8) {
        v.push(Step::Call(Op::SetPref("NavMode".into(), rng.pick(pools::NAV_MODES).to_string())));
    }
    if rng.chance(0.5) {
        v.push(Step::Call(Op::SetPref("Overview".into(), rng.pick(&["true", "false"]).to_string())));
    }
    if rng.chance(0.5) {
        v.push(Step::Call(Op::SetPref("AutoZoomOut".into(), rng.pick(&["true", "false"]).to_string())));
    }
    if rng.chance(0.5) {
        v.push(Step::Call(Op::SetPref("NavVerbosity".into(), rng.pick(pools::NAV_VERBOSITY).to_string())));
    }
    if rng.chance(0.2) {
        v.push(Step::Call(Op::SetPref("ResetNavMode".into(), rng.pick(&["true", "false"]).to_string())));
    }
    v
}

pub fn random_trace(seed: u64) -> Trace {
    let mut rng = Rng::stream(seed, "c11-workload");
    let mut t = Trace::new("C11", "C11");
    t.origin = format!("random seed={}", seed);
    t.world.lib_rand_seed = seed;
    let mut s: Vec<Step> = vec![Step::Call(Op::SetRulesDir(MOUNT_A.into()))];
    if rng.chance(0.3) {
        s.push(Step::Call(Op::SetPref("Language".into(), rng.pick(&["en", "es", "sv", "fi", "zh-tw", "id", "vi"]).to_string())));
    }
    if rng.chance(0.3) {
        s.push(Step::Call(Op::SetPref("SpeechStyle".into(), rng.pick(pools::SPEECH_STYLES).to_string())));
    }
    s.extend(nav_pref_steps(&mut rng));
    let n_valid = pools::VALID_EXPRS.len();
    let first = if rng.chance(0.15) {
        gen_expr(&mut rng)
    } else if rng.chance(0.2) {
        ExprRef::Corpus(rng.below(pools::corpus().len()))
    } else {
        ExprRef::Pool(rng.below(n_valid))
    };
    s.push(Step::Call(Op::SetMathml(first)));
    let n = rng.range(5, 150);
    // swarm: per run probabilities
    let p_key = *rng.pick(&[0.0, 0.1, 0.3]);
    let p_newexpr = *rng.pick(&[0.0, 0.03, 0.08]);
    let p_setnode = *rng.pick(&[0.0, 0.04, 0.1]);
    let p_other = *rng.pick(&[0.0, 0.05, 0.15]);
    // FS-fault configuration: the navigation rule file breaks (and is repaired) in the middle of the walk; the position
    // must stay a retrievable node of the current expression whatever the failing commands do
    let with_faults = rng.chance(0.12);
    if with_faults {
        s.insert(1, Step::Call(Op::SetPref("CheckRuleFiles".into(), "All".into())));
    }
    let nav_file = format!("{}/Languages/en/navigate.yaml", MOUNT_A);
    let mut broken = false;
    for _ in 0..n {
        if with_faults && rng.chance(0.06) {
            s.push(Step::Env(EnvEvent::Clock { ms: rng.range(1, 3000) as u64 }));
            if broken {
                s.push(Step::Env(EnvEvent::Repair { path: nav_file.clone(), keep_mtime: false }));
            } else {
                let kinds = [FaultKind::Empty, FaultKind::Garbage, FaultKind::InvalidXpath(rng.below(1000)), FaultKind::TruncEntries(rng.below(1000)), FaultKind::WrongTopType, FaultKind::UnknownReplacementKey(rng.below(1000))];
                s.push(Step::Env(EnvEvent::Fault { path: nav_file.clone(), kind: rng.pick(&kinds).clone() }));
            }
            broken = !broken;
            continue;
        }
        let r = (rng.next_u64() % 10_000) as f64 / 10_000.0;
        if r < p_newexpr {
            let e = match rng.below(10) {
                0..=4 => ExprRef::Pool(rng.below(n_valid)),
                5 => ExprRef::Corpus(rng.below(pools::corpus().len())),
                6 => gen_expr(&mut rng),
                7 => ExprRef::Feedback,
                _ => ExprRef::Bad(rng.below(pools::INVALID_EXPRS.len())),
            };
            s.push(Step::Call(Op::SetMathml(e)));
        } else if r < p_newexpr + p_setnode {
            let id = match rng.below(10) {
                0..=6 => IdRef::Nth(rng.below(40)),
                7 => IdRef::Stale(rng.below(10)),
                8 => IdRef::Lit("no-such-id".into()),
                _ => IdRef::Empty,
            };
            s.push(Step::Call(Op::SetNavNode(id, *rng.pick(&[0usize, 0, 0, 1, 2, 7]))));
        } else if r < p_newexpr + p_setnode + p_other {
            let op = match rng.below(9) {
                0 => Op::Speech,
                1 => Op::Braille(IdRef::Nav),
                2 => Op::Braille(IdRef::Empty),
                3 => Op::BraillePos,
                4 => Op::NodeFromPos(PosRef::Permille(rng.below(1000))),
                5 => Op::Overview,
                6 => Op::NavBraille,
                7 => Op::SetPref("NavMode".into(), rng.pick(pools::NAV_MODES).to_string()),
                _ => Op::GetPref("NavMode".into()),
            };
            s.push(Step::Call(op));
        } else if r < p_newexpr + p_setnode + p_other + p_key {
            s.push(Step::Call(random_key(&mut rng)));
        } else {
            s.push(Step::Call(Op::Cmd(random_nav_command(&mut rng))));
        }
    }
    t.sessions = vec![s];
    t
}

/// Directed scenarios that must run in every quick check (each anchored mechanism at least once)
pub fn directed() -> Vec<Trace> {
    let mut v = Vec::new();
    let mk = |name: &str, steps: Vec<Step>| {
        let mut t = Trace::new("C11", "C11");
        t.origin = format!("directed {}", name);
        let mut s = vec![Step::Call(Op::SetRulesDir(MOUNT_A.into()))];
        s.extend(steps);
        t.sessions = vec![s];
        t
    };
    let cmd = |c: &str| Step::Call(Op::Cmd(c.to_string()));
    let set = |i: usize| Step::Call(Op::SetMathml(ExprRef::Pool(i)));
    // a place marker must not survive a change of expression
    v.push(mk("placemarker-crosses-expression", vec![set(2), cmd("ZoomIn"), cmd("MoveNext"), cmd("SetPlacemarker3"), set(3), cmd("MoveTo3"), cmd("MoveNext"), cmd("MoveLastLocation")]));
    // undo after the retry loop over invisible operators
    v.push(mk("undo-after-invisible-ops", vec![set(27), cmd("ZoomIn"), cmd("MoveNext"), cmd("MoveNext"), cmd("MoveLastLocation"), cmd("MoveLastLocation"), cmd("MoveLastLocation")]));
    for mode in pools::NAV_MODES {
        v.push(mk(
            &format!("walk-{}", mode),
            vec![Step::Call(Op::SetPref("NavMode".into(), mode.to_string())), set(10), cmd("ZoomIn"), cmd("ZoomIn"), cmd("MoveNext"), cmd("MoveCellDown"), cmd("ReadCurrent"), cmd("WhereAmI"), cmd("MoveLineEnd"), cmd("ZoomOutAll"), cmd("MoveLastLocation"), set(30), cmd("ZoomInAll"), cmd("MoveNext"), cmd("MovePrevious"), cmd("MoveLastLocation")],
        ));
    }
    // every key with every combination of modifiers, from inside a table cell that has neighbours in all directions
    // (pool 54 is a 3x2 table; the second row's cells have a row above and below) and from a plain token
    for mode in pools::NAV_MODES {
        for (label, expr, ids) in [("table", 54usize, vec![14usize, 16, 12]), ("plain", 3usize, vec![3usize, 5])] {
            let mut steps = vec![Step::Call(Op::SetPref("NavMode".into(), mode.to_string())), set(expr)];
            for key in pools::KEYS {
                for m in 0..16u8 {
                    // back to a known place first (ids by position in the returned MathML; a miss is just an error)
                    steps.push(Step::Call(Op::SetNavNode(IdRef::Nth(ids[(m as usize) % ids.len()]), 0)));
                    steps.push(Step::Call(Op::Key { key: *key, shift: m & 1 != 0, ctrl: m & 2 != 0, alt: m & 4 != 0, meta: m & 8 != 0 }));
                }
            }
            v.push(mk(&format!("all-keys-all-modifiers-{}-{}", label, mode), steps));
        }
    }
    v.push(mk("failed-set-mathml-keeps-expression", vec![set(8), cmd("ZoomIn"), cmd("SetPlacemarker1"), Step::Call(Op::SetMathml(ExprRef::Bad(2))), cmd("MoveNext"), cmd("MoveTo1"), cmd("ReadCurrent")]));
    // the node navigation already rests on, asked for again with other character offsets (and through every mode)
    for mode in pools::NAV_MODES {
        let mut steps = vec![Step::Call(Op::SetPref("NavMode".into(), mode.to_string())), set(21)];
        for id in ["r", "b"] {
            for off in [0usize, 1, 2, 3, 1, 0] {
                steps.push(Step::Call(Op::SetNavNode(IdRef::Lit(id.into()), off)));
            }
            steps.push(cmd("MoveNext"));
            for off in [1usize, 0, 2] {
                steps.push(Step::Call(Op::SetNavNode(IdRef::Nav, off)));
            }
            steps.push(cmd("MovePrevious"));
            steps.push(cmd("MoveLastLocation"));
        }
        v.push(mk(&format!("set-navigation-node-same-node-other-offset-{}", mode), steps));
    }
    v.push(mk("set-navigation-node", vec![set(21), Step::Call(Op::SetNavNode(IdRef::Lit("b".into()), 0)), cmd("MovePrevious"), cmd("MoveLastLocation"), Step::Call(Op::SetNavNode(IdRef::Lit("r".into()), 3)), cmd("ReadCurrent"), Step::Call(Op::SetNavNode(IdRef::Stale(0), 0))]));
    v
}
