//! C20 — braille highlighting and cursor routing are safe and side-effect free.
use std::collections::BTreeMap;

use serde_json::json;

use crate::exec::*;
use crate::pools;
use crate::props::common::*;
use crate::rng::Rng;
use crate::simfs::*;
use crate::trace::*;

pub struct C20Checker {
    names: Vec<String>,
    before: Option<Snap>,
    ever_faulted: bool,
}

#[derive(Clone, Debug, PartialEq)]
struct Snap {
    prefs: BTreeMap<String, String>,
    nav: Res,
    braille: Res,
    speech: Res,
}

pub fn is_query(op: &Op) -> bool {
    matches!(op, Op::Braille(_) | Op::BraillePos | Op::NodeFromPos(_))
}

impl C20Checker {
    pub fn new(_t: &Trace, _s: usize) -> C20Checker {
        C20Checker { names: vec![], before: None, ever_faulted: false }
    }

    fn snap(&mut self, s: &mut Sess) -> Snap {
        if self.names.is_empty() {
            self.names = pref_names(&s.ctx.base);
        }
        // the outputs first: a braille or speech call re-reads preference files whose time stamp moved (values MathCAT wrote
        // itself, e.g. NavMode after a navigation command, then fall back to the file's); the preference values are read
        // after that, so that a pending re-read is not mistaken for an effect of the query
        let nav = norm(&s.call(&Op::NavId));
        let braille = norm(&s.call(&Op::Braille(IdRef::Empty)));
        let speech = norm(&s.call(&Op::Speech));
        let prefs: BTreeMap<String, String> = s.read_prefs(&self.names.clone()).into_iter().collect();
        Snap { prefs, nav, braille, speech }
    }
}

impl C20Checker {
    /// get_braille("") of a fresh session with the same files and preferences except BrailleNavHighlight=Off
    fn braille_with_highlight_off(&mut self, s: &mut Sess, prefs: &BTreeMap<String, String>) -> Option<String> {
        let mut prefs = prefs.clone();
        prefs.insert("BrailleNavHighlight".into(), "Off".into());
        let r = self.fresh_outputs(s, &prefs)?;
        r.braille.ok().map(|b| b.to_string())
    }

    /// outputs of a fresh session with the same files, the given preferences and the current expression
    fn fresh_outputs(&mut self, s: &mut Sess, prefs: &BTreeMap<String, String>) -> Option<RefOut> {
        let dir = s.rules_dir.clone()?;
        let src = s.cur_src.clone()?;
        let language_is_auto = prefs.get("Language").map(|v| v == "Auto").unwrap_or(true);
        let list: Vec<(String, String)> = prefs.iter().filter(|(n, _)| language_is_auto || n.as_str() != "LanguageAuto").map(|(n, v)| (n.clone(), v.clone())).collect();
        let list = order_prefs_for_reference(&list);
        let fs = s.world.lock().fs.clone();
        let r = reference_outputs(s, &fs, &dir, &list, &src);
        if !r.setup_errors.is_empty() {
            s.probe("fresh_reference_unavailable");
            return None;
        }
        Some(r)
    }
}

impl Checker for C20Checker {
    fn before_step(&mut self, s: &mut Sess, step: &Step) {
        self.before = None;
        if let Step::Call(op) = step {
            if is_query(op) && s.rules_dir.is_some() {
                self.before = Some(self.snap(s));
            }
        }
    }

    fn after_call(&mut self, s: &mut Sess, op: &Op, res: &Res) {
        if !is_query(op) {
            return;
        }
        let Some(before) = self.before.clone() else { return };
        // (a) purity, also when the query failed
        let after = self.snap(s);
        let outcome = if res.is_ok() { "successful" } else { "failed" };
        if before.prefs != after.prefs {
            let diff: Vec<String> = after.prefs.iter().filter(|(k, v)| before.prefs.get(*k) != Some(*v)).map(|(k, v)| format!("{}: {:?} -> {:?}", k, before.prefs.get(k), v)).collect();
            s.violation("query-changed-preference", format!("a {} {} changed a preference", outcome, op.name()), diff.join("; "));
            return;
        }
        if before.nav != after.nav {
            s.violation("query-moved-navigation", format!("a {} {} moved the navigation position", outcome, op.name()), format!("{} -> {}", before.nav.short(), after.nav.short()));
            return;
        }
        // outputs are compared when both sides are Ok (after an injected read error a later output may fail, never differ)
        let same = |a: &Res, b: &Res| !(a.is_ok() && b.is_ok()) || a == b;
        if !same(&before.braille, &after.braille) || !same(&before.speech, &after.speech) {
            s.violation("query-changed-output", format!("a {} {} changed later braille or speech", outcome, op.name()), format!("before: {} / {}\nafter: {} / {}", before.braille.short(), before.speech.short(), after.braille.short(), after.speech.short()));
            return;
        }
        s.probe(if res.is_ok() { "query_pure" } else { "failed_query_pure" });
        // ... and "later output unchanged" also means: what the session says now is what a session that never made any of
        // these queries says (a query that writes onto the expression tree shows in the overview or in another code's
        // braille, not necessarily in the outputs the snapshot happens to contain)
        if !(self.ever_faulted || !s.world.lock().injections.is_empty()) && !s.cur_ids.is_empty() {
            let overview = norm(&s.call(&Op::Overview));
            if let Some(r) = self.fresh_outputs(s, &after.prefs) {
                for (name, got, exp) in [("get_braille", &after.braille, norm(&r.braille)), ("get_spoken_text", &after.speech, norm(&r.speech)), ("get_overview_text", &overview, norm(&r.overview))] {
                    if got.is_ok() && exp.is_ok() && *got != exp {
                        s.violation_g(
                            "query-changed-output",
                            format!("after braille queries {} differs from a session that made none", name),
                            "outputs differ from a session without the queries".into(),
                            format!("last query: {}\nsession: {}\nfresh session (same expression and preferences, no queries): {}", op.name(), got.short(), exp.short()),
                        );
                        return;
                    }
                }
                s.probe("outputs_like_session_without_queries");
            }
        }
        // (b) success and ranges, fault-free configuration only
        let have_expr = !s.cur_ids.is_empty();
        let plain = before.braille.ok().map(|b| b.to_string());
        let faulted = self.ever_faulted || !s.world.lock().injections.is_empty();
        if have_expr && !faulted {
            if let Some(plain) = plain.clone() {
                let len = plain.chars().count();
                match op {
                    Op::BraillePos => match res {
                        Res::Ok(v) => {
                            let mut it = v.split('\t');
                            let a: usize = it.next().and_then(|x| x.parse().ok()).unwrap_or(usize::MAX);
                            let b: usize = it.next().and_then(|x| x.parse().ok()).unwrap_or(usize::MAX);
                            // positions index the braille with the current node highlighted
                            // (the snapshot holds normalised ids: resolve the real navigation id again)
                            let hl = s.call(&Op::Braille(IdRef::Nav)).ok().map(|x| x.chars().count()).unwrap_or(len);
                            if !(a <= b && b <= hl) {
                                s.violation("position-out-of-range", "get_braille_position outside the braille string".into(), format!("start {} end {} length {} (highlighted {})", a, b, len, hl));
                            } else {
                                s.probe("position_in_range");
                            }
                        }
                        Res::Err(e) => s.violation("query-failed", "get_braille_position fails for the current node".into(), first_line(e, 200)),
                        _ => {}
                    },
                    Op::NodeFromPos(p) => {
                        let k = match p {
                            PosRef::Abs(n) => *n,
                            PosRef::LenPlus(d) => len + d,
                            PosRef::Permille(n) => len * n / 1000,
                        };
                        match res {
                            Res::Ok(v) => {
                                let (id, _) = split_pair(v);
                                if !s.cur_ids.contains(&id) {
                                    s.violation("foreign-id-handed-out", "the node found from a braille position is not in the expression".into(), format!("position {} -> id '{}'", k, id));
                                } else {
                                    s.probe("routing_ok");
                                }
                            }
                            Res::Err(e) => {
                                if k < len && len > 0 {
                                    s.violation("query-failed", "get_navigation_node_from_braille_position fails for a cell of the braille".into(), format!("position {} of {}: {}", k, len, first_line(e, 200)));
                                }
                            }
                            _ => {}
                        }
                    }
                    Op::Braille(idref) => {
                        // resolved id: the trace step's reference, resolved again (deterministic)
                        let id = s.resolve_id(idref);
                        let highlight = after.prefs.get("BrailleNavHighlight").cloned().unwrap_or_default();
                        let code = after.prefs.get("BrailleCode").cloned().unwrap_or_default();
                        let in_expr = s.cur_ids.contains(&id);
                        match res {
                            Res::Ok(b) => {
                                // (c) "the unhighlighted braille" is the braille with BrailleNavHighlight=Off: what a fresh session
                                // with the same preferences except that one gives (get_braille("") of this session is only the
                                // same call with the empty id, it goes through the same highlighting code)
                                let unhighlighted = if highlight == "Off" { Some(plain.clone()) } else { self.braille_with_highlight_off(s, &after.prefs) };
                                let expect_plain = highlight == "Off" || !in_expr;
                                if expect_plain && normalize_ids(b) != plain {
                                    s.violation(
                                        "highlight-when-it-should-not",
                                        if highlight == "Off" { "braille differs from the unhighlighted braille although highlighting is Off".into() } else { "braille differs from the unhighlighted braille for an id that is not in the expression".into() },
                                        format!("get_braille({:?}) = {}\nget_braille(\"\") = {}", normalize_ids(&id), b, plain),
                                    );
                                } else if let (true, Some(u)) = (expect_plain, unhighlighted.as_ref()) {
                                    if b != u {
                                        // known: Nemeth and Vietnam end table rows with the 8-dot cell U+28CD, which the highlighting
                                        // code takes for a highlighted cell (dots 7 and 8 are its only marker)
                                        let eight_dot_separator = (code == "Nemeth" || code == "Vietnam") && u.contains('\u{28cd}');
                                        let what = if id.is_empty() { "the empty id" } else { "an id that is not in the expression" };
                                        s.violation_g(
                                            "highlight-when-it-should-not",
                                            if eight_dot_separator {
                                                "braille for an id that is not in the expression differs from the braille with highlighting Off: 8-dot row separator of a Nemeth/Vietnam table taken for a highlight".into()
                                            } else {
                                                format!("braille for {} differs from the braille with BrailleNavHighlight=Off", what)
                                            },
                                            if eight_dot_separator { "8-dot row separator".into() } else { "differs from braille with highlighting Off".into() },
                                            format!("BrailleCode={} BrailleNavHighlight={}\nget_braille({:?}) = {}\nbraille with BrailleNavHighlight=Off = {}", code, highlight, normalize_ids(&id), b, u),
                                        );
                                    } else {
                                        s.probe("unhighlighted_equal");
                                        if highlight != "Off" {
                                            s.probe("equals_braille_with_highlight_off");
                                        }
                                    }
                                } else {
                                    s.probe(if expect_plain { "unhighlighted_equal" } else { "highlight_ok" });
                                }
                            }
                            Res::Err(e) => {
                                if in_expr || id.is_empty() {
                                    s.violation("query-failed", "get_braille fails for an id of the expression".into(), first_line(e, 200));
                                }
                            }
                            _ => {}
                        }
                    }
                    _ => {}
                }
            }
        }
        let h = state_hash_of(&[s.cur_src.as_deref().unwrap_or(""), after.prefs.get("BrailleCode").map(|x| x.as_str()).unwrap_or(""), after.prefs.get("BrailleNavHighlight").map(|x| x.as_str()).unwrap_or(""), op.name(), &after.nav.short()]);
        s.state_hash(h);
    }

    fn after_env(&mut self, _s: &mut Sess, ev: &EnvEvent, outcome: &str) {
        if matches!(ev, EnvEvent::Fault { .. }) && outcome.starts_with("applied") {
            self.ever_faulted = true;
        }
    }

    /// "final_observe": everything a later caller can see (all preference values, the navigation position, braille,
    /// speech, overview) goes into the observed results of the run; exec::execute_checked compares them with the SAME
    /// history in which every braille query is replaced by a call that does nothing (get_version)
    fn on_check(&mut self, s: &mut Sess, kind: &str, _args: &serde_json::Value) {
        if kind != "final_observe" || s.rules_dir.is_none() {
            return;
        }
        if self.names.is_empty() {
            self.names = pref_names(&s.ctx.base);
        }
        // outputs first, preference values last: the first output call re-reads preference files whose time stamp moved
        // (see snap()); in the control run that call may be the first one since the touch
        for op in [Op::NavId, Op::Braille(IdRef::Empty), Op::Speech, Op::Overview] {
            let r = norm(&s.call(&op));
            s.out.observed.push(format!("final_observe {}: {}", op.name(), match &r { Res::Ok(v) => format!("Ok {}", v), Res::Err(_) => "Err".to_string(), Res::Panic(m, _) => format!("Panic {}", m) }));
        }
        let prefs = s.read_prefs(&self.names.clone());
        let prefs: Vec<String> = prefs.iter().map(|(n, v)| format!("{}={:?}", n, v)).collect();
        s.out.observed.push(format!("final_observe preferences: {}", prefs.join(" ")));
        s.probe("final_state_observed");
    }
}

// ---------------------------------------------------------------------------------------------------

const CODES: &[&str] = &["Nemeth", "UEB", "CMU", "Vietnam", "LaTeX", "ASCIIMath", "Swedish"];

pub fn random_trace(seed: u64) -> Trace {
    let mut rng = Rng::stream(seed, "c20-workload");
    let mut t = Trace::new("C20", "C20");
    t.origin = format!("random seed={}", seed);
    t.world.lib_rand_seed = seed;
    let mut s: Vec<Step> = vec![Step::Call(Op::SetRulesDir(MOUNT_A.into()))];
    s.push(Step::Call(Op::SetPref("BrailleCode".into(), rng.pick(CODES).to_string())));
    s.push(Step::Call(Op::SetPref("BrailleNavHighlight".into(), rng.pick(pools::HIGHLIGHT).to_string())));
    if rng.chance(0.3) {
        s.push(Step::Call(Op::SetPref("NavMode".into(), rng.pick(pools::NAV_MODES).to_string())));
    }
    let inject = rng.chance(0.25);
    if inject {
        s.push(Step::Call(Op::SetPref("CheckRuleFiles".into(), "All".into())));
    }
    let n_valid = pools::VALID_EXPRS.len();
    let first = if rng.chance(0.2) {
        gen_expr(&mut rng)
    } else if rng.chance(0.25) {
        ExprRef::Corpus(rng.below(pools::corpus().len()))
    } else {
        ExprRef::Pool(rng.below(n_valid))
    };
    s.push(Step::Call(Op::SetMathml(first)));
    let n = rng.range(6, 60);
    for _ in 0..n {
        match rng.below(20) {
            0..=3 => s.push(Step::Call(Op::Cmd(crate::props::c11::random_nav_command(&mut rng)))),
            4 => s.push(Step::Call(Op::SetNavNode(if rng.chance(0.9) { IdRef::Nth(rng.below(30)) } else { IdRef::Stale(rng.below(10)) }, *rng.pick(&[0usize, 0, 1, 2, 3, 7])))),
            5 => s.push(Step::Call(Op::SetMathml(if rng.chance(0.2) {
                gen_expr(&mut rng)
            } else if rng.chance(0.25) {
                ExprRef::Corpus(rng.below(pools::corpus().len()))
            } else if rng.chance(0.85) {
                ExprRef::Pool(rng.below(n_valid))
            } else {
                ExprRef::Bad(rng.below(pools::INVALID_EXPRS.len()))
            }))),
            6 => s.push(Step::Call(Op::SetPref("BrailleNavHighlight".into(), rng.pick(pools::HIGHLIGHT).to_string()))),
            7 => s.push(Step::Call(Op::SetPref("BrailleCode".into(), rng.pick(CODES).to_string()))),
            8..=11 => {
                let id = match rng.below(10) {
                    0..=5 => IdRef::Nth(rng.below(40)),
                    6 => IdRef::Nav,
                    7 => IdRef::Stale(rng.below(10)),
                    8 => IdRef::Lit("not-an-id".into()),
                    _ => IdRef::Empty,
                };
                s.push(Step::Call(Op::Braille(id)));
            }
            12 | 13 => s.push(Step::Call(Op::BraillePos)),
            _ => {
                let p = match rng.below(6) {
                    0 => PosRef::Abs(0),
                    1 => PosRef::LenPlus(rng.below(2)),
                    _ => PosRef::Permille(rng.below(1000)),
                };
                if inject && rng.chance(0.5) {
                    // a transient read error at the j-th read inside this query (CheckRuleFiles=All re-stats, a touch forces re-reads)
                    s.push(Step::Env(EnvEvent::Clock { ms: 10 }));
                    let step = s.len();
                    // the touch lands after the checker's snapshot, immediately before the query: the query itself reloads
                    for code in CODES {
                        for f in ["unicode.yaml", &format!("{}_Rules.yaml", code)] {
                            if rng.chance(0.5) {
                                t.pre_call_env.push(PreCallEnv { session: 0, step, event: EnvEvent::Touch { path: format!("{}/Braille/{}/{}", MOUNT_A, code, f) } });
                            }
                        }
                    }
                    t.injections.push(Injection { session: 0, step, sub: 0, nth: rng.range(1, 3), kind: rng.pick(&[InjectKind::ReadEio, InjectKind::ReadEacces]).clone(), sticky: rng.chance(0.5) });
                }
                s.push(Step::Call(Op::NodeFromPos(p)));
            }
        }
    }
    if !inject {
        // the user (or an installer) touches the preference files now and then: every session re-reads them at its next
        // call, and what it then holds must not depend on the queries made before
        let n_touch = rng.below(3);
        for _ in 0..n_touch {
            let at = rng.range(5.min(s.len()), s.len());
            s.insert(at, Step::Env(EnvEvent::Touch { path: format!("{}/prefs.yaml", MOUNT_A) }));
            s.insert(at, Step::Env(EnvEvent::Clock { ms: 1500 }));
        }
        s.push(Step::Check { kind: "final_observe".into(), args: json!({}) });
    }
    t.sessions = vec![s];
    t
}

/// every id and every cell of a few expressions, for each code and highlight style (quick: a rotating subset)
pub fn directed(all: bool) -> Vec<Trace> {
    let mut v = Vec::new();
    let exprs: &[usize] = if all { &[2, 3, 5, 8, 10, 12, 15, 19, 30, 31, 38, 50, 51, 52, 53, 54, 55, 56] } else { &[3, 8, 10, 19, 50, 51, 53, 54, 55, 56] };
    for (ci, code) in CODES.iter().enumerate() {
        for (hi, hl) in pools::HIGHLIGHT.iter().enumerate() {
            let mut t = Trace::new("C20", "C20");
            t.origin = format!("directed all-ids-all-cells {} {}", code, hl);
            let mut s = vec![Step::Call(Op::SetRulesDir(MOUNT_A.into())), Step::Call(Op::SetPref("BrailleCode".into(), code.to_string())), Step::Call(Op::SetPref("BrailleNavHighlight".into(), hl.to_string()))];
            for (ei, e) in exprs.iter().enumerate() {
                if !all && (ei + ci + hi) % 2 == 1 {
                    continue;
                }
                s.push(Step::Call(Op::SetMathml(ExprRef::Pool(*e))));
                for k in 0..24 {
                    s.push(Step::Call(Op::Braille(IdRef::Nth(k))));
                }
                s.push(Step::Call(Op::Braille(IdRef::Lit("not-an-id".into()))));
                for k in 0..40 {
                    s.push(Step::Call(Op::NodeFromPos(PosRef::Abs(k))));
                }
                s.push(Step::Call(Op::NodeFromPos(PosRef::LenPlus(0))));
                s.push(Step::Call(Op::NodeFromPos(PosRef::LenPlus(1))));
                for c in ["ZoomIn", "MoveNext", "ZoomIn", "MoveNext", "ZoomOut", "MoveEnd"] {
                    s.push(Step::Call(Op::Cmd(c.into())));
                    s.push(Step::Call(Op::BraillePos));
                    s.push(Step::Call(Op::Braille(IdRef::Nav)));
                }
                // what a screen reader does with a routing key: the node under the cell becomes the navigation node,
                // with the offset the routing call reported; later moves start from there
                for (k, offset) in [(2usize, 1usize), (4, 2), (6, 5)] {
                    s.push(Step::Call(Op::SetNavNode(IdRef::Nth(k), offset)));
                    s.push(Step::Call(Op::BraillePos));
                    s.push(Step::Call(Op::Braille(IdRef::Nav)));
                    s.push(Step::Call(Op::Cmd("MoveNext".into())));
                    s.push(Step::Call(Op::BraillePos));
                    s.push(Step::Call(Op::Cmd("ZoomOutAll".into())));
                    s.push(Step::Call(Op::BraillePos));
                }
            }
            t.sessions = vec![s];
            v.push(t);
        }
    }
    // corpus expressions (from the repository's tests): every id and the first 40 cells, codes and styles cycling
    let n_corpus = if all { 210 } else { 28 };
    for i in 0..n_corpus {
        let code = CODES[i % CODES.len()];
        let hl = pools::HIGHLIGHT[(i / CODES.len()) % pools::HIGHLIGHT.len()];
        let mut t = Trace::new("C20", "C20");
        t.origin = format!("directed corpus all-ids-all-cells #{} {} {}", i, code, hl);
        let mut s = vec![Step::Call(Op::SetRulesDir(MOUNT_A.into())), Step::Call(Op::SetPref("BrailleCode".into(), code.to_string())), Step::Call(Op::SetPref("BrailleNavHighlight".into(), hl.to_string()))];
        for j in 0..3 {
            s.push(Step::Call(Op::SetMathml(ExprRef::Corpus(i * 7 + j * 499))));
            for k in 0..30 {
                s.push(Step::Call(Op::Braille(IdRef::Nth(k))));
            }
            for k in 0..40 {
                s.push(Step::Call(Op::NodeFromPos(PosRef::Abs(k))));
            }
            for c in ["ZoomIn", "MoveNext", "ZoomIn", "MoveEnd"] {
                s.push(Step::Call(Op::Cmd(c.into())));
                s.push(Step::Call(Op::BraillePos));
            }
        }
        t.sessions = vec![s];
        v.push(t);
    }
    // the regression section of the pool (minimised expressions of repaired defects) under every code
    for (ci, code) in CODES.iter().enumerate() {
        let mut t = Trace::new("C20", "C20");
        t.origin = format!("directed regression-expressions {}", code);
        let hl = pools::HIGHLIGHT[(ci + 1) % pools::HIGHLIGHT.len()];
        let mut s = vec![Step::Call(Op::SetRulesDir(MOUNT_A.into())), Step::Call(Op::SetPref("BrailleCode".into(), code.to_string())), Step::Call(Op::SetPref("BrailleNavHighlight".into(), hl.to_string()))];
        for e in pools::REGRESSION_FROM..pools::VALID_EXPRS.len() {
            s.push(Step::Call(Op::SetMathml(ExprRef::Pool(e))));
            for k in 0..8 {
                s.push(Step::Call(Op::Braille(IdRef::Nth(k))));
            }
            for k in 0..10 {
                s.push(Step::Call(Op::NodeFromPos(PosRef::Abs(k))));
            }
            s.push(Step::Call(Op::Cmd("ZoomIn".into())));
            s.push(Step::Call(Op::BraillePos));
            s.push(Step::Call(Op::Cmd("MoveNext".into())));
            s.push(Step::Call(Op::BraillePos));
        }
        t.sessions = vec![s];
        v.push(t);
    }
    // ... and under the non-default values of each braille code's own preferences; between two identical position queries one
    // of those preferences changes (an answer remembered under too coarse a key shows as a position outside the new braille)
    for (vi, (code, prefs)) in pools::BRAILLE_VARIANTS.iter().enumerate() {
        let mut t = Trace::new("C20", "C20");
        t.origin = format!("directed braille-variants {} {}", vi, code);
        let hl = pools::HIGHLIGHT[(vi + 2) % pools::HIGHLIGHT.len()];
        let mut s = vec![Step::Call(Op::SetRulesDir(MOUNT_A.into())), Step::Call(Op::SetPref("BrailleCode".into(), code.to_string())), Step::Call(Op::SetPref("BrailleNavHighlight".into(), hl.to_string()))];
        for e in [3usize, 8, 10, 12, 50, 54, 55, 61, 63, pools::VALID_EXPRS.len() - 1] {
            s.push(Step::Call(Op::SetMathml(ExprRef::Pool(e))));
            for c in ["ZoomIn", "MoveEnd"] {
                s.push(Step::Call(Op::Cmd(c.into())));
                s.push(Step::Call(Op::BraillePos));
                for (n, val) in prefs.iter() {
                    s.push(Step::Call(Op::SetPref(n.to_string(), val.to_string())));
                    s.push(Step::Call(Op::BraillePos));
                    s.push(Step::Call(Op::Braille(IdRef::Nav)));
                    s.push(Step::Call(Op::NodeFromPos(PosRef::LenPlus(0))));
                    s.push(Step::Call(Op::NodeFromPos(PosRef::Permille(990))));
                }
                // back to the defaults (the next expression starts from them again)
                for (n, _) in prefs.iter() {
                    let default = if n.ends_with("START_MODE") { "Grade2" } else if n.contains("UseSpaces") || n.contains("UseDrop") || n.contains("UseShort") { "false" } else { "\u{2808}" };
                    s.push(Step::Call(Op::SetPref(n.to_string(), default.to_string())));
                    s.push(Step::Call(Op::BraillePos));
                }
            }
        }
        t.sessions = vec![s];
        v.push(t);
    }
    // restoration on the error path: a read error inside routing with the user's highlight style Off
    for code in ["Nemeth", "UEB"] {
        for nth in 1..=3 {
            let mut t = Trace::new("C20", "C20");
            t.origin = format!("directed routing-read-error {} nth={}", code, nth);
            let s = vec![
                Step::Call(Op::SetRulesDir(MOUNT_A.into())),
                Step::Call(Op::SetPref("BrailleCode".into(), code.to_string())),
                Step::Call(Op::SetPref("BrailleNavHighlight".into(), "Off".into())),
                Step::Call(Op::SetPref("CheckRuleFiles".into(), "All".into())),
                Step::Call(Op::SetMathml(ExprRef::Pool(8))),
                Step::Call(Op::Braille(IdRef::Empty)),
                Step::Env(EnvEvent::Clock { ms: 1000 }),
                Step::Call(Op::NodeFromPos(PosRef::Abs(2))),
                Step::Call(Op::NodeFromPos(PosRef::Abs(2))),
            ];
            t.pre_call_env.push(PreCallEnv { session: 0, step: 7, event: EnvEvent::Touch { path: format!("{}/Braille/{}/{}_Rules.yaml", MOUNT_A, code, code) } });
            t.pre_call_env.push(PreCallEnv { session: 0, step: 7, event: EnvEvent::Touch { path: format!("{}/Braille/{}/unicode.yaml", MOUNT_A, code) } });
            t.pre_call_env.push(PreCallEnv { session: 0, step: 7, event: EnvEvent::Touch { path: format!("{}/Braille/{}/definitions.yaml", MOUNT_A, code) } });
            t.injections.push(Injection { session: 0, step: 7, sub: 0, nth, kind: InjectKind::ReadEio, sticky: false });
            t.sessions = vec![s];
            v.push(t);
        }
    }
    // restoration on the error path, second way in: the up-front reload succeeds and the failure happens INSIDE a probe (the
    // lazily read Braille/<code>/unicode-full.yaml is broken and the expression has a character found only there)
    for code in ["Nemeth", "UEB", "CMU"] {
        for style in ["Off", "All", "FirstChar"] {
            for kind in [FaultKind::Empty, FaultKind::WrongTopType] {
                let mut t = Trace::new("C20", "C20");
                t.origin = format!("directed query-fails-inside-probe {} {} {}", code, style, crate::faults::kind_name(&kind));
                let mut s = vec![
                    Step::Call(Op::SetRulesDir(MOUNT_A.into())),
                    Step::Env(EnvEvent::Fault { path: format!("{}/Braille/{}/unicode-full.yaml", MOUNT_A, code), kind: kind.clone() }),
                    Step::Call(Op::SetPref("BrailleCode".into(), code.to_string())),
                    Step::Call(Op::SetPref("BrailleNavHighlight".into(), style.to_string())),
                    Step::Call(Op::SetMathml(ExprRef::Pool(pools::EXPR_NEEDS_FULL_UNICODE))),
                ];
                for k in 0..4 {
                    s.push(Step::Call(Op::NodeFromPos(PosRef::Abs(k))));
                }
                s.push(Step::Call(Op::BraillePos));
                s.push(Step::Call(Op::Braille(IdRef::Nth(2))));
                s.push(Step::Call(Op::SetMathml(ExprRef::Pool(2))));
                s.push(Step::Call(Op::Braille(IdRef::Nth(1))));
                s.push(Step::Call(Op::NodeFromPos(PosRef::Abs(1))));
                t.sessions = vec![s];
                v.push(t);
            }
        }
    }
    // delayed effects: a highlight style (or another braille preference) set through the API, queries of every kind, then
    // the preference files get a newer time stamp (nothing in them changes) and are re-read by the next call; what the
    // session holds and says afterwards must be what the same history WITHOUT the queries leaves (run-level oracle in
    // exec::execute_checked)
    for code in ["Nemeth", "UEB", "LaTeX"] {
        for style in ["Off", "FirstChar", "All", "EndPoints"] {
            for with_user_dir in [true, false] {
                let mut t = Trace::new("C20", "C20");
                t.origin = format!("directed queries-then-prefs-reread {} {} user_dir={}", code, style, with_user_dir);
                t.world.user_config_dir = with_user_dir;
                let s = vec![
                    Step::Call(Op::SetRulesDir(MOUNT_A.into())),
                    Step::Call(Op::SetPref("BrailleCode".into(), code.to_string())),
                    Step::Call(Op::SetPref("BrailleNavHighlight".into(), style.to_string())),
                    Step::Call(Op::SetMathml(ExprRef::Pool(8))),
                    Step::Call(Op::Cmd("ZoomIn".into())),
                    Step::Call(Op::Braille(IdRef::Nth(2))),
                    Step::Call(Op::BraillePos),
                    Step::Call(Op::NodeFromPos(PosRef::Abs(2))),
                    Step::Call(Op::NodeFromPos(PosRef::LenPlus(1))),
                    Step::Env(EnvEvent::Clock { ms: 2000 }),
                    Step::Env(EnvEvent::Touch { path: format!("{}/prefs.yaml", MOUNT_A) }),
                    Step::Call(Op::Speech),
                    Step::Call(Op::SetMathml(ExprRef::Pool(10))),
                    Step::Call(Op::Cmd("MoveNext".into())),
                    Step::Check { kind: "final_observe".into(), args: json!({}) },
                ];
                t.sessions = vec![s];
                v.push(t);
            }
        }
    }
    v
}
