//! Fault kinds as content transformers: pristine bytes -> faulted bytes (+ the class of the fault).
//! They work on the text of the shipped YAML files (entry boundaries, `match:` lines, `t:` replacements),
//! so they stay meaningful if the rule files change.
use crate::simfs::FaultClass;
use crate::trace::FaultKind;

pub fn is_dir_fault(kind: &FaultKind) -> bool {
    matches!(kind, FaultKind::DirMissing | FaultKind::DirIsFile)
}

/// All file-level fault kinds with representative parameters (used by the enumeration)
pub fn file_fault_kinds() -> Vec<FaultKind> {
    vec![
        FaultKind::Deleted,
        FaultKind::Empty,
        FaultKind::TruncBytes(500),
        FaultKind::TruncEntries(500),
        FaultKind::WrongTopType,
        FaultKind::Scalar,
        FaultKind::WrongInnerShape,
        FaultKind::InvalidXpath(0),
        FaultKind::InvalidXpath(999),
        FaultKind::UnknownReplacementKey(500),
        FaultKind::ExtraRuleKey(500),
        FaultKind::TwoDocuments,
        FaultKind::InvalidUtf8(300),
        FaultKind::AsciiFlip(400),
        FaultKind::IncludeMissing,
        FaultKind::Garbage,
    ]
}

fn entry_starts(text: &str) -> Vec<usize> {
    // byte offsets of lines that start a top-level sequence entry: "- x", "-" or " - x" (unicode files)
    let mut v = Vec::new();
    let mut off = 0;
    for line in text.split_inclusive('\n') {
        let l = line.trim_end_matches(['\n', '\r']);
        if l == "-" || l.starts_with("- ") || l.starts_with(" - ") || l == " -" {
            v.push(off);
        }
        off += line.len();
    }
    v
}

fn top_keys_of_mapping(text: &str) -> Vec<usize> {
    // prefs.yaml: top-level keys are indented by two blanks ("  Speech:")
    let mut v = Vec::new();
    let mut off = 0;
    for line in text.split_inclusive('\n') {
        let l = line.trim_end_matches(['\n', '\r']);
        let indent = l.len() - l.trim_start().len();
        if indent <= 2 && !l.trim().is_empty() && !l.trim_start().starts_with('#') && l.trim_end().ends_with(':') && !l.starts_with("---") {
            v.push(off);
        }
        off += line.len();
    }
    v
}

fn is_sequence_file(text: &str) -> bool {
    !entry_starts(text).is_empty()
}

fn pick_index(n: usize, permille: usize) -> usize {
    if n == 0 {
        0
    } else {
        ((n * permille) / 1000).min(n - 1)
    }
}

/// Lines (start offset, end offset without newline) that match `pred`
fn lines_where<F: Fn(&str) -> bool>(text: &str, pred: F) -> Vec<(usize, usize)> {
    let mut v = Vec::new();
    let mut off = 0;
    for line in text.split_inclusive('\n') {
        let l = line.trim_end_matches(['\n', '\r']);
        if pred(l) {
            v.push((off, off + l.len()));
        }
        off += line.len();
    }
    v
}

fn strip_comment(l: &str) -> &str {
    // only strips a trailing comment that follows a closing quote
    if let Some(i) = l.rfind('"') {
        if let Some(j) = l[i..].find('#') {
            return l[..i + j].trim_end();
        }
    }
    l.trim_end()
}

fn single_line_quoted_value(l: &str, key: &str) -> bool {
    // `<indent>[- ]key: "....."` with both quotes on this line and nothing (but a comment) after
    let t = l.trim_start();
    let t = t.strip_prefix("- ").unwrap_or(t).trim_start();
    let Some(rest) = t.strip_prefix(key) else { return false };
    let Some(rest) = rest.strip_prefix(": ") else { return false };
    let rest = strip_comment(rest.trim());
    rest.len() >= 2 && rest.starts_with('"') && rest.ends_with('"') && rest[1..rest.len() - 1].find('"').is_none()
}

/// Returns None when the kind does not apply to this file (e.g. no `match:` line in a definitions file)
pub fn mutate(kind: &FaultKind, pristine: &[u8], file_name: &str) -> Option<(Vec<u8>, FaultClass)> {
    let text = String::from_utf8_lossy(pristine).to_string();
    let is_prefs = file_name.ends_with("prefs.yaml");
    let is_defs = file_name.ends_with("definitions.yaml");
    let is_unicode = file_name.ends_with("unicode.yaml") || file_name.ends_with("unicode-full.yaml");
    use FaultClass::*;
    match kind {
        FaultKind::Deleted | FaultKind::DirMissing | FaultKind::DirIsFile => None, // not content faults
        FaultKind::Empty => Some((Vec::new(), MustErr)),
        FaultKind::TruncBytes(pm) => {
            let mut k = pick_index(pristine.len(), *pm);
            // make sure the cut leaves invalid YAML: cut inside a quoted string if one is near
            if let Some(q) = text[..floor_char(&text, k)].rfind('"') {
                // cut right after an opening quote => unterminated string (only if the quote count up to q is even => q opens)
                let quotes_before = text[..q].matches('"').count();
                if quotes_before % 2 == 0 {
                    k = q + 1;
                } else if let Some(q2) = text[..q].rfind('"') {
                    k = q2 + 1;
                }
            }
            if k == 0 || k >= pristine.len() {
                return None;
            }
            // a cut that happens to leave one well-formed YAML document of the right top-level type cannot be
            // told from a shorter rule file by anyone: MAY-LOAD. Decided by parsing, not by guessing.
            let cut = pristine[..k].to_vec();
            let class = match std::str::from_utf8(&cut).ok().and_then(|t| yaml_rust::YamlLoader::load_from_str(t).ok()) {
                Some(docs) if docs.len() == 1 && (docs[0].as_vec().is_some() != is_prefs) && (docs[0].as_hash().is_some() == is_prefs) => MayLoad,
                _ => MustErr,
            };
            Some((cut, class))
        }
        FaultKind::TruncEntries(pm) => {
            let starts = if is_prefs { top_keys_of_mapping(&text) } else { entry_starts(&text) };
            if starts.len() < 2 {
                return None;
            }
            let keep = pick_index(starts.len(), *pm).max(1);
            Some((pristine[..starts[keep]].to_vec(), MayLoad))
        }
        FaultKind::WrongTopType => {
            if is_sequence_file(&text) && !is_prefs {
                Some((b"---\nSpeech: 1\nzzz: [a, b]\n".to_vec(), MustErr))
            } else {
                Some((b"---\n- a\n- b\n".to_vec(), MustErr))
            }
        }
        FaultKind::Scalar => Some((b"--- just a string\n".to_vec(), MustErr)),
        FaultKind::WrongInnerShape => {
            let s: &str = if is_prefs {
                "---\nSpeech: [1, 2]\nNavigation: 3\nBraille: x\nOther: [y]\n"
            } else if is_defs {
                "---\n- NumbersOnes: {a: b}\n"
            } else if is_unicode {
                "---\n - \"a\": 5\n - \"b\": {x: y}\n"
            } else {
                "---\n- 5\n- foo\n"
            };
            Some((s.as_bytes().to_vec(), MustErr))
        }
        FaultKind::InvalidXpath(pm) => {
            let key = if is_unicode { "if" } else { "match" };
            let lines = lines_where(&text, |l| single_line_quoted_value(l, key));
            if lines.is_empty() || is_prefs || is_defs {
                return None;
            }
            let (s, e) = lines[pick_index(lines.len(), *pm)];
            let line = &text[s..e];
            let colon = line.find(&format!("{}: ", key))? + key.len() + 2;
            let new_line = format!("{}\"*[((\"", &line[..colon]);
            let mut out = String::with_capacity(text.len());
            out.push_str(&text[..s]);
            out.push_str(&new_line);
            out.push_str(&text[e..]);
            Some((out.into_bytes(), MustErr))
        }
        FaultKind::UnknownReplacementKey(pm) => {
            if is_prefs || is_defs {
                return None;
            }
            // `- t: "x"` (block) or `[t: "x"]` (flow)
            let lines = lines_where(&text, |l| {
                let t = l.trim_start();
                // not a commented-out line, and a flow-style replacement must come before any trailing comment
                let flow = l.find("[t: \"").or_else(|| l.find("[T: \""));
                let flow_ok = match (flow, l.find('#')) {
                    (Some(f), Some(c)) => f < c,
                    (Some(_), None) => true,
                    _ => false,
                };
                !t.starts_with('#') && (t.starts_with("- t: \"") || t.starts_with("- T: \"") || flow_ok)
            });
            if lines.is_empty() {
                return None;
            }
            let (s, e) = lines[pick_index(lines.len(), *pm)];
            let line = &text[s..e];
            let new_line = if let Some(i) = line.find("[t: \"").or_else(|| line.find("[T: \"")) {
                format!("{}[zzz: \"{}", &line[..i], &line[i + 5..])
            } else {
                let i = line.find("- t: \"").or_else(|| line.find("- T: \""))?;
                format!("{}- zzz: \"{}", &line[..i], &line[i + 6..])
            };
            let mut out = String::with_capacity(text.len() + 4);
            out.push_str(&text[..s]);
            out.push_str(&new_line);
            out.push_str(&text[e..]);
            Some((out.into_bytes(), MustErr))
        }
        FaultKind::ExtraRuleKey(pm) => {
            if is_prefs || is_defs || is_unicode {
                return None;
            }
            let lines = lines_where(&text, |l| l.starts_with("  name: ") || l.starts_with("- name: "));
            if lines.is_empty() {
                return None;
            }
            let (_s, e) = lines[pick_index(lines.len(), *pm)];
            let mut out = String::with_capacity(text.len() + 32);
            out.push_str(&text[..e]);
            out.push_str("\n  zzz_extra_key: 1");
            out.push_str(&text[e..]);
            Some((out.into_bytes(), MayLoad))
        }
        FaultKind::TwoDocuments => {
            let mut out = pristine.to_vec();
            if is_prefs {
                out.extend_from_slice(b"\n---\n  Speech:\n    Verbosity: Terse\n");
            } else {
                out.extend_from_slice(b"\n---\n- zzz: 1\n");
            }
            Some((out, MustErr))
        }
        FaultKind::InvalidUtf8(pm) => {
            if pristine.is_empty() {
                return None;
            }
            let mut out = pristine.to_vec();
            let k = pick_index(out.len(), *pm);
            out[k] = 0xFF;
            Some((out, MustErr))
        }
        FaultKind::AsciiFlip(pm) => {
            // change one letter inside a `t: "word"` text: still parses, speaks differently
            let lines = lines_where(&text, |l| l.contains("t: \"") && !l.trim_start().starts_with('#'));
            if lines.is_empty() || is_prefs || is_defs {
                return None;
            }
            let (s, e) = lines[pick_index(lines.len(), *pm)];
            let line = &text[s..e];
            let i = line.find("t: \"")? + 4;
            let bytes = line.as_bytes();
            if i >= bytes.len() || !bytes[i].is_ascii_alphabetic() {
                return None;
            }
            let mut out = pristine.to_vec();
            out[s + i] = if bytes[i] == b'q' { b'z' } else { b'q' };
            Some((out, MayLoad))
        }
        FaultKind::IncludeMissing => {
            if is_prefs {
                return None;
            }
            let lines = lines_where(&text, |l| {
                let t = l.trim_start();
                t.starts_with("- include: \"") || t.starts_with("include: \"")
            });
            if let Some(&(s, e)) = lines.first() {
                let line = &text[s..e];
                let i = line.find("include: \"")? + 10;
                let new_line = format!("{}no_such_file.yaml\"", &line[..i]);
                let mut out = String::new();
                out.push_str(&text[..s]);
                out.push_str(&new_line);
                out.push_str(&text[e..]);
                Some((out.into_bytes(), MustErr))
            } else if is_unicode {
                None
            } else {
                let mut out = pristine.to_vec();
                out.extend_from_slice(b"\n- include: \"no_such_file.yaml\"\n");
                Some((out, MustErr))
            }
        }
        FaultKind::Garbage => Some((b"{{{ not yaml ]]]\n\t- : :\n  \"unterminated\n".to_vec(), MustErr)),
    }
}

fn floor_char(s: &str, mut k: usize) -> usize {
    if k > s.len() {
        k = s.len();
    }
    while k > 0 && !s.is_char_boundary(k) {
        k -= 1;
    }
    k
}

pub fn kind_name(kind: &FaultKind) -> String {
    match kind {
        FaultKind::Deleted => "deleted".into(),
        FaultKind::Empty => "empty".into(),
        FaultKind::TruncBytes(_) => "truncated-bytes".into(),
        FaultKind::TruncEntries(_) => "truncated-at-entry-boundary".into(),
        FaultKind::WrongTopType => "wrong-top-level-type".into(),
        FaultKind::Scalar => "scalar-document".into(),
        FaultKind::WrongInnerShape => "wrong-inner-shape".into(),
        FaultKind::InvalidXpath(_) => "invalid-xpath".into(),
        FaultKind::UnknownReplacementKey(_) => "unknown-replacement-key".into(),
        FaultKind::ExtraRuleKey(_) => "extra-rule-key".into(),
        FaultKind::TwoDocuments => "two-documents".into(),
        FaultKind::InvalidUtf8(_) => "invalid-utf8".into(),
        FaultKind::AsciiFlip(_) => "ascii-flip".into(),
        FaultKind::IncludeMissing => "include-missing".into(),
        FaultKind::Garbage => "garbage".into(),
        FaultKind::DirMissing => "dir-missing".into(),
        FaultKind::DirIsFile => "dir-is-file".into(),
    }
}
