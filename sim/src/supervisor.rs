//! Supervisor / worker processes, replay, evidence files.
use std::collections::{BTreeMap, BTreeSet, HashSet};
use std::io::{BufRead, BufReader, Write};
use std::path::{Path, PathBuf};
use std::process::{Command, Stdio};
use std::sync::atomic::Ordering;
use std::time::Instant;

use serde::{Deserialize, Serialize};
use serde_json::{json, Value};

use crate::exec::{self, execute_checked as execute, ExecCtx, RunStats};
use crate::findings;
use crate::plan::{self, Plan};
use crate::rng::fnv_str;
use crate::shrink;
use crate::simfs::BaseTree;
use crate::trace::*;
use crate::{make_ctx, verif_dir, verif_seed};

pub const ALL_PROPS: &[&str] = &["C08", "C09", "C10", "C11", "C12", "C14", "C20"];

#[derive(Serialize, Deserialize, Clone, Debug)]
pub struct ReplayFile {
    pub property: String,
    /// "violation": executing the trace must yield a violation with key `expect_key`;
    /// "process-death": executing the trace in a child process must kill it (abort, stack overflow, hang watchdog)
    pub expect_kind: String,
    pub expect_key: String,
    pub original_unit: String,
    pub verif_seed: u64,
    pub shrink_execs: usize,
    pub original_steps: usize,
    pub detail: String,
    pub trace: Trace,
}

#[derive(Serialize, Deserialize, Clone, Debug)]
pub struct ViolationReport {
    pub v: Violation,
    pub replay: String,
    pub known: Option<String>,
    pub known_what: Option<String>,
    pub unit: String,
}

#[derive(Serialize, Deserialize, Clone, Debug, Default)]
pub struct WorkerSummary {
    pub worker: usize,
    pub runs: u64,
    pub next_unit: usize,
    pub done: bool,
    pub trace_hashes_nontrivial: Vec<u64>,
    pub stats: RunStats,
    pub state_hashes: Vec<u64>,
    pub interleave_hashes: Vec<u64>,
    pub violations: Vec<ViolationReport>,
    pub samples: Vec<Value>,
    pub harness_errors: Vec<String>,
    pub notes: Vec<String>,
    pub wall_s: f64,
    pub shrinks: u64,
}

/// the zipped deployment layout: MathCAT's own build.rs output, embedded by the include-zip feature
pub fn load_zipped_base() -> Option<BaseTree> {
    use std::io::Read;
    let mut archive = zip::ZipArchive::new(std::io::Cursor::new(libmathcat::ZIPPED_RULE_FILES)).ok()?;
    let mut files = std::collections::BTreeMap::new();
    for i in 0..archive.len() {
        let mut f = archive.by_index(i).ok()?;
        if !f.is_file() {
            continue;
        }
        let name = f.enclosed_name()?.to_string_lossy().replace('\\', "/");
        let Some(rel) = name.strip_prefix("Rules/") else { continue };
        let mut bytes = Vec::with_capacity(f.size() as usize);
        f.read_to_end(&mut bytes).ok()?;
        files.insert(rel.to_string(), std::sync::Arc::from(bytes.into_boxed_slice()));
    }
    if files.is_empty() {
        return None;
    }
    let mut h = crate::rng::Fnv::new();
    for (k, v) in &files {
        h.str(k);
        h.u64(crate::rng::fnv_bytes(v));
    }
    Some(BaseTree { files, hash: h.0 })
}

fn work_dir() -> PathBuf {
    let d = verif_dir().join("target").join("work");
    let _ = std::fs::create_dir_all(&d);
    d
}

fn replays_dir() -> PathBuf {
    let d = verif_dir().join("replays");
    let _ = std::fs::create_dir_all(&d);
    d
}

fn sample_of(trace: &Trace, label: &str, out: &exec::RunOutput) -> Value {
    let steps: Vec<String> = trace
        .sessions
        .iter()
        .enumerate()
        .flat_map(|(si, s)| {
            s.iter().take(14).map(move |st| {
                let d = match st {
                    Step::Call(op) => exec::describe(op),
                    Step::Env(e) => format!("env {:?}", e),
                    Step::Check { kind, args } => format!("check {} {}", kind, args),
                };
                let d: String = d.chars().take(160).collect();
                format!("s{}: {}", si, d)
            })
        })
        .collect();
    json!({
        "unit": label,
        "origin": trace.origin.chars().take(300).collect::<String>(),
        "steps": steps,
        "injections": trace.injections.len(),
        "api_calls": out.stats.api_calls,
        "api_err": out.stats.api_err,
        "faults_consumed": out.stats.faults_consumed,
        "violations": out.violations.iter().map(|v| v.key()).collect::<Vec<_>>(),
    })
}

pub fn worker(property: &str, tier: &str, w: usize, n: usize, start_at: usize) -> i32 {
    let started = Instant::now();
    let ctx = match make_ctx(false) {
        Ok(c) => c,
        Err(e) => {
            println!("@@{}", json!({"type": "fatal", "error": e}));
            return 2;
        }
    };
    let seed = verif_seed();
    let plan = match plan::build_plan(property, tier, seed, &ctx) {
        Ok(p) => p,
        Err(e) => {
            println!("@@{}", json!({"type": "fatal", "error": e}));
            return 2;
        }
    };
    // watchdog: the only place real time is consulted; never influences a schedule
    let watchdog_s: u64 = std::env::var("MCSIM_WATCHDOG_S").ok().and_then(|s| s.parse().ok()).unwrap_or(60);
    let _ = exec::CALL_DESC.set(std::sync::Mutex::new(String::new()));
    std::thread::spawn(move || loop {
        std::thread::sleep(std::time::Duration::from_millis(500));
        let st = exec::CALL_STARTED_MS.load(Ordering::SeqCst);
        if st != 0 {
            let now = std::time::SystemTime::now().duration_since(std::time::UNIX_EPOCH).map(|d| d.as_millis() as u64).unwrap_or(0);
            if now > st + watchdog_s * 1000 {
                let d = exec::CALL_DESC.get().and_then(|m| m.lock().ok().map(|s| s.clone())).unwrap_or_default();
                println!("@@{}", json!({"type": "hang", "call": d}));
                std::process::exit(87);
            }
        }
    });
    let budget_s: f64 = std::env::var("VERIF_BUDGET_S").ok().and_then(|s| s.parse().ok()).unwrap_or(f64::MAX);
    let current_file = work_dir().join(format!("{}-{}-w{}.current.json", property, tier, w));
    let mut sum = WorkerSummary { worker: w, ..Default::default() };
    let mut nontrivial: BTreeSet<u64> = BTreeSet::new();
    let mut states: HashSet<u64> = HashSet::new();
    let mut inter: HashSet<u64> = HashSet::new();
    let mut seen_keys: HashSet<String> = HashSet::new();
    let my_units: Vec<usize> = (0..plan.units.len()).filter(|i| i % n == w).collect();
    let mut idx = start_at;
    while idx < my_units.len() {
        if started.elapsed().as_secs_f64() > budget_s {
            break;
        }
        let u = my_units[idx];
        let label = plan::unit_label(&plan, u);
        let trace = plan::unit_trace(&plan, u, &ctx);
        let tjson = serde_json::to_string(&trace).unwrap_or_default();
        let _ = std::fs::write(&current_file, json!({"unit_index": idx, "label": label, "trace": trace}).to_string());
        // self-test of the death triage (never set by the registered commands): die like a stack overflow would
        if std::env::var("MCSIM_TEST_ABORT_UNIT").ok().and_then(|v| v.parse::<usize>().ok()) == Some(u) {
            std::process::abort();
        }
        let out = execute(&trace, &ctx);
        idx += 1;
        sum.runs += 1;
        sum.stats.merge(&out.stats);
        if let Some(e) = &out.harness_error {
            sum.harness_errors.push(format!("{}: {}", label, e));
        }
        if plan::nontrivial(property, &out) {
            nontrivial.insert(fnv_str(&tjson));
        }
        for h in &out.state_hashes {
            states.insert(*h);
        }
        if out.interleave_hash != 0xcbf29ce484222325 {
            inter.insert(out.interleave_hash);
        }
        for nt in out.notes.iter().take(3) {
            if sum.notes.len() < 20 {
                sum.notes.push(format!("{}: {}", label, nt));
            }
        }
        if sum.samples.len() < 2 || (sum.samples.len() < 4 && !out.stats.faults_consumed.is_empty() && idx % 7 == 0) {
            sum.samples.push(sample_of(&trace, &label, &out));
        }
        for v in &out.violations {
            let known = findings::match_known(v);
            let key = v.key();
            if let Some(f) = known {
                if seen_keys.insert(format!("known:{}", f.id)) {
                    sum.violations.push(ViolationReport { v: v.clone(), replay: String::new(), known: Some(f.id.clone()), known_what: Some(f.what.clone()), unit: label.clone() });
                }
                continue;
            }
            if !seen_keys.insert(format!("{}|{}", v.class, v.group)) {
                continue; // same mechanism already reported (with a replay) by this worker
            }
            let (min, execs) = if sum.shrinks < 6 { shrink::shrink(&trace, &key, &ctx, 800, 60) } else { (trace.clone(), 0) };
            sum.shrinks += 1;
            // the minimised trace must still reproduce (it does by construction); take the details from its own run
            let out2 = execute(&min, &ctx);
            let v2 = out2.violations.iter().find(|x| x.key() == key).cloned().unwrap_or_else(|| v.clone());
            let file = replays_dir().join(format!("{}-{}-{:08x}.json", property, label, fnv_str(&key) as u32));
            let rf = ReplayFile {
                property: property.to_string(),
                expect_kind: "violation".into(),
                expect_key: key.clone(),
                original_unit: label.clone(),
                verif_seed: seed,
                shrink_execs: execs,
                original_steps: trace.n_steps(),
                detail: v2.detail.clone(),
                trace: min,
            };
            let _ = std::fs::write(&file, serde_json::to_string_pretty(&rf).unwrap_or_default());
            sum.violations.push(ViolationReport { v: v2, replay: file.to_string_lossy().to_string(), known: None, known_what: None, unit: label.clone() });
        }
    }
    let _ = std::fs::remove_file(&current_file);
    sum.next_unit = idx;
    sum.done = idx >= my_units.len();
    sum.trace_hashes_nontrivial = nontrivial.into_iter().collect();
    sum.state_hashes = states.into_iter().collect();
    sum.interleave_hashes = inter.into_iter().collect();
    sum.wall_s = started.elapsed().as_secs_f64();
    println!("@@{}", serde_json::to_string(&json!({"type": "summary", "summary": sum})).unwrap_or_default());
    0
}

struct Child {
    w: usize,
    child: std::process::Child,
    start_at: usize,
}

fn spawn_worker(property: &str, tier: &str, w: usize, n: usize, start_at: usize) -> std::io::Result<Child> {
    let exe = std::env::current_exe()?;
    let child = Command::new(exe)
        .args(["worker", property, tier, &w.to_string(), &n.to_string(), &start_at.to_string()])
        .stdout(Stdio::piped())
        .stderr(Stdio::inherit())
        .spawn()?;
    Ok(Child { w, child, start_at })
}

fn n_workers() -> usize {
    std::env::var("MCSIM_WORKERS").ok().and_then(|s| s.parse().ok()).unwrap_or_else(|| std::thread::available_parallelism().map(|n| n.get()).unwrap_or(4).min(16))
}

pub fn check(property: &str, tier: &str) -> i32 {
    let started = Instant::now();
    let seed = verif_seed();
    if !ALL_PROPS.contains(&property) {
        eprintln!("HARNESS-ERROR: unknown property {}", property);
        return 2;
    }
    let ctx = match make_ctx(false) {
        Ok(c) => c,
        Err(e) => {
            eprintln!("HARNESS-ERROR: {}", e);
            return 2;
        }
    };
    let plan = match plan::build_plan(property, tier, seed, &ctx) {
        Ok(p) => p,
        Err(e) => {
            eprintln!("HARNESS-ERROR: {}", e);
            return 2;
        }
    };
    let n = n_workers().min(plan.units.len().max(1));
    println!("mcsim check {} {} VERIF_SEED={} units={} workers={}", property, tier, seed, plan.units.len(), n);
    let mut summaries: Vec<WorkerSummary> = Vec::new();
    let mut harness_errors: Vec<String> = Vec::new();
    let mut death_reports: Vec<ViolationReport> = Vec::new();
    let mut pending: Vec<Child> = Vec::new();
    for w in 0..n {
        match spawn_worker(property, tier, w, n, 0) {
            Ok(c) => pending.push(c),
            Err(e) => harness_errors.push(format!("cannot spawn worker {}: {}", w, e)),
        }
    }
    // collect (sequentially per worker; workers run in parallel). A dead worker is triaged and resumed.
    let mut restarts = 0;
    while let Some(mut c) = pending.pop() {
        let stdout = c.child.stdout.take();
        let mut got_summary = false;
        let mut hang_call: Option<String> = None;
        if let Some(so) = stdout {
            for line in BufReader::new(so).lines().map_while(Result::ok) {
                if let Some(js) = line.strip_prefix("@@") {
                    if let Ok(v) = serde_json::from_str::<Value>(js) {
                        match v["type"].as_str() {
                            Some("summary") => {
                                if let Ok(s) = serde_json::from_value::<WorkerSummary>(v["summary"].clone()) {
                                    summaries.push(s);
                                    got_summary = true;
                                }
                            }
                            Some("fatal") => harness_errors.push(format!("worker {}: {}", c.w, v["error"])),
                            Some("hang") => hang_call = Some(v["call"].as_str().unwrap_or("").to_string()),
                            _ => {}
                        }
                    }
                }
            }
        }
        let status = c.child.wait();
        if got_summary {
            continue;
        }
        // the worker died (abort, stack overflow, watchdog): triage the trace it was executing
        let cur = work_dir().join(format!("{}-{}-w{}.current.json", property, tier, c.w));
        let cur_json: Option<Value> = std::fs::read_to_string(&cur).ok().and_then(|t| serde_json::from_str(&t).ok());
        match cur_json {
            None => harness_errors.push(format!("worker {} died ({:?}) without a current trace", c.w, status)),
            Some(cj) => {
                let label = cj["label"].as_str().unwrap_or("?").to_string();
                let unit_index = cj["unit_index"].as_u64().unwrap_or(0) as usize;
                let trace: Option<Trace> = serde_json::from_value(cj["trace"].clone()).ok();
                if let Some(trace) = trace {
                    let kind = if hang_call.is_some() { "hang" } else { "abort" };
                    let key = format!("{}|process-death|{}", property, kind);
                    let file = replays_dir().join(format!("{}-{}-death.json", property, label));
                    let rf = ReplayFile {
                        property: property.to_string(),
                        expect_kind: "process-death".into(),
                        expect_key: key.clone(),
                        original_unit: label.clone(),
                        verif_seed: seed,
                        shrink_execs: 0,
                        original_steps: trace.n_steps(),
                        detail: format!("worker process died ({:?}) while executing this trace; {}", status, hang_call.clone().unwrap_or_default()),
                        trace,
                    };
                    let _ = std::fs::write(&file, serde_json::to_string_pretty(&rf).unwrap_or_default());
                    // does it reproduce in a fresh child?
                    if replay_in_child_dies(&file) {
                        // minimise: every candidate runs in its own child process (only aborts: a hang costs the watchdog time per try)
                        if kind == "abort" && restarts < 3 {
                            let mut pred = |t: &Trace| trace_in_child_dies(t);
                            let (min, execs) = shrink::shrink_with(&rf.trace, &mut pred, 400, 240);
                            let mut rf2 = rf.clone();
                            rf2.trace = min;
                            rf2.shrink_execs = execs;
                            let _ = std::fs::write(&file, serde_json::to_string_pretty(&rf2).unwrap_or_default());
                        }
                        death_reports.push(ViolationReport {
                            v: Violation { property: property.to_string(), class: "process-death".into(), sig: kind.into(), group: kind.into(), detail: rf.detail.clone(), session: 0, step: 0 },
                            replay: file.to_string_lossy().to_string(),
                            known: None,
                            known_what: None,
                            unit: label,
                        });
                    } else {
                        harness_errors.push(format!("worker {} died on {} but the trace does not reproduce the death", c.w, label));
                    }
                    restarts += 1;
                    if restarts < 20 {
                        if let Ok(nc) = spawn_worker(property, tier, c.w, n, unit_index + 1) {
                            pending.push(nc);
                        }
                    }
                } else {
                    harness_errors.push(format!("worker {} died; current trace unreadable", c.w));
                }
            }
        }
        let _ = c.start_at;
    }

    // aggregate
    let mut stats = RunStats::default();
    let mut runs = 0u64;
    let mut nontrivial: BTreeSet<u64> = BTreeSet::new();
    let mut states: BTreeSet<u64> = BTreeSet::new();
    let mut inter: BTreeSet<u64> = BTreeSet::new();
    let mut samples: Vec<Value> = Vec::new();
    let mut reports: Vec<ViolationReport> = death_reports;
    let mut notes: Vec<String> = Vec::new();
    let mut all_done = true;
    for s in &summaries {
        stats.merge(&s.stats);
        runs += s.runs;
        nontrivial.extend(s.trace_hashes_nontrivial.iter().copied());
        states.extend(s.state_hashes.iter().copied());
        inter.extend(s.interleave_hashes.iter().copied());
        if samples.len() < 6 {
            samples.extend(s.samples.iter().take(2).cloned());
        }
        reports.extend(s.violations.iter().cloned());
        harness_errors.extend(s.harness_errors.iter().cloned());
        notes.extend(s.notes.iter().cloned());
        all_done &= s.done;
    }
    // required probes
    let mut stuck: Vec<String> = Vec::new();
    for p in &plan.required_probes {
        if stats.probes.get(p).copied().unwrap_or(0) == 0 {
            stuck.push(p.clone());
        }
    }
    let mut known_seen: BTreeMap<String, (String, String)> = BTreeMap::new();
    let mut unknown: Vec<ViolationReport> = Vec::new();
    let mut seen_unknown: HashSet<String> = HashSet::new();
    for r in reports {
        match (&r.known, &r.known_what) {
            (Some(id), what) => {
                known_seen.entry(id.clone()).or_insert((what.clone().unwrap_or_default(), r.v.sig.clone()));
            }
            _ => {
                if seen_unknown.insert(format!("{}|{}", r.v.class, r.v.group)) {
                    unknown.push(r);
                }
            }
        }
    }
    let wall = started.elapsed().as_secs_f64();
    for (id, (what, sig)) in &known_seen {
        let short: String = what.chars().take(260).collect();
        println!("KNOWN-FINDING: property={} {}{} [{}; signature: {}]", property, short, if what.chars().count() > 260 { "…" } else { "" }, id, sig);
    }
    for r in &unknown {
        println!("VIOLATION property={} replay={}", property, r.replay);
        println!("  class={} sig={}", r.v.class, r.v.sig);
        for l in r.v.detail.lines().take(6) {
            println!("  | {}", l.chars().take(400).collect::<String>());
        }
    }
    write_evidence(&plan, &stats, runs, nontrivial.len(), states.len(), inter.len(), &samples, &known_seen, unknown.len(), wall, all_done, &notes);
    println!(
        "runs={} api_calls={} (ok={} err={} panic={}) seam_calls={} faults_fired={} consumed={} injections={} ref_sessions={} distinct_nontrivial={} states={} sim_time_s={} wall_s={:.1}",
        runs,
        stats.api_calls,
        stats.api_ok,
        stats.api_err,
        stats.api_panic,
        stats.seam_calls,
        stats.faults_fired.values().sum::<u64>(),
        stats.faults_consumed.values().sum::<u64>(),
        stats.injections_fired.values().sum::<u64>(),
        stats.ref_sessions,
        nontrivial.len(),
        states.len(),
        stats.sim_time_ms / 1000,
        wall
    );
    if !harness_errors.is_empty() {
        for e in harness_errors.iter().take(10) {
            eprintln!("HARNESS-ERROR: {}", e);
        }
        return if unknown.is_empty() { 2 } else { 1 };
    }
    if !unknown.is_empty() {
        return 1;
    }
    if !stuck.is_empty() && all_done {
        eprintln!("HARNESS-ERROR: probes stuck at zero (the workload does not reach the mechanism): {:?}", stuck);
        return 2;
    }
    0
}

fn trace_in_child_dies(t: &Trace) -> bool {
    let Ok(exe) = std::env::current_exe() else { return false };
    static N: std::sync::atomic::AtomicUsize = std::sync::atomic::AtomicUsize::new(0);
    let k = N.fetch_add(1, std::sync::atomic::Ordering::SeqCst);
    let tf = work_dir().join(format!("death-{}-{}.trace.json", std::process::id(), k));
    let _ = std::fs::write(&tf, serde_json::to_string(t).unwrap_or_default());
    let st = Command::new(exe).args(["run-trace", &tf.to_string_lossy()]).stdout(Stdio::null()).stderr(Stdio::null()).status();
    let _ = std::fs::remove_file(&tf);
    match st {
        // exit codes 0/1/2 are the harness's own (clean, violation, harness error): anything else is the death of the process
        Ok(s) => !matches!(s.code(), Some(0) | Some(1) | Some(2)),
        Err(_) => false,
    }
}

fn replay_in_child_dies(file: &Path) -> bool {
    let Ok(exe) = std::env::current_exe() else { return false };
    let tf = work_dir().join(format!("death-{}.trace.json", std::process::id()));
    let Ok(text) = std::fs::read_to_string(file) else { return false };
    let Ok(rf) = serde_json::from_str::<ReplayFile>(&text) else { return false };
    let _ = std::fs::write(&tf, serde_json::to_string(&rf.trace).unwrap_or_default());
    let st = Command::new(exe).args(["run-trace", &tf.to_string_lossy()]).stdout(Stdio::null()).stderr(Stdio::null()).status();
    let _ = std::fs::remove_file(&tf);
    match st {
        Ok(s) => !(s.code() == Some(0) || s.code() == Some(1)),
        Err(_) => false,
    }
}

#[allow(clippy::too_many_arguments)]
fn write_evidence(
    plan: &Plan,
    stats: &RunStats,
    runs: u64,
    distinct_nontrivial: usize,
    states: usize,
    interleavings: usize,
    samples: &[Value],
    known: &BTreeMap<String, (String, String)>,
    violations: usize,
    wall: f64,
    complete: bool,
    notes: &[String],
) {
    let dir = verif_dir().join("evidence");
    let _ = std::fs::create_dir_all(&dir);
    let per_hour = if wall > 0.0 { (runs as f64) * 3600.0 / wall } else { 0.0 };
    let ev = json!({
        "property_id": plan.property,
        "tier": plan.tier,
        "seed": plan.seed,
        "level": plan.level,
        "coverage": {
            "evaluations": runs,
            "distinct_nontrivial": distinct_nontrivial,
            "rule": plan.rule,
            "samples": samples,
            "exhaustive": plan.exhaustive,
            "planned_units": plan.units.len(),
            "plan": plan.extra,
            "completed_all_units": complete,
            "simulated_runs_per_hour": per_hour.round(),
            "simulated_time_covered_s": stats.sim_time_ms / 1000,
            "api_calls": stats.api_calls,
            "api_calls_by_entry_point": stats.api_by_name,
            "api_results": {"ok": stats.api_ok, "err": stats.api_err, "panic": stats.api_panic},
            "seam_calls": stats.seam_calls,
            "seam_calls_by_kind": stats.seam_by_kind,
            "fault_kinds_fired": stats.faults_fired,
            "fault_kinds_consumed_by_a_call": stats.faults_consumed,
            "in_call_injections_fired": stats.injections_fired,
            "environment_events": stats.env_events,
            "distinct_abstract_states": states,
            "distinct_interleavings": interleavings,
            "scheduler_switches": stats.switches,
            "yield_points": stats.yield_points,
            "sessions_started": stats.sessions,
            "reference_sessions": stats.ref_sessions,
            "reference_memo_hits": stats.ref_memo_hits,
            "reach_probes": stats.probes,
            "known_findings_seen": known.iter().map(|(k, (w, s))| json!({"id": k, "what": w, "signature": s})).collect::<Vec<_>>(),
            "notes": notes.iter().take(10).collect::<Vec<_>>(),
            "components": {
                "real": "MathCAT library code (src/*.rs of /repo at its working tree), yaml-rust, sxd-xpath, regex, zip decoding",
                "stub": "file system, mtimes, wall clock, id-prefix randomness, config-dir lookup, zip extraction writes (SimFs behind src/verif_hooks.rs)"
            }
        },
        "assumptions": plan.assumptions,
        "wall_s": (wall * 10.0).round() / 10.0,
        "violations": violations,
    });
    let path = dir.join(format!("{}.json", plan.property));
    let _ = std::fs::write(path, serde_json::to_string_pretty(&ev).unwrap_or_default());
}

pub fn replay(file: &str) -> i32 {
    let text = match std::fs::read_to_string(file) {
        Ok(t) => t,
        Err(e) => {
            eprintln!("HARNESS-ERROR: cannot read {}: {}", file, e);
            return 2;
        }
    };
    let rf: ReplayFile = match serde_json::from_str(&text) {
        Ok(r) => r,
        Err(e) => {
            eprintln!("HARNESS-ERROR: {} is not a replay file: {}", file, e);
            return 2;
        }
    };
    if rf.expect_kind == "process-death" {
        if replay_in_child_dies(Path::new(file)) {
            println!("VIOLATION property={} replay={}", rf.property, file);
            println!("  class=process-death: the child process executing this trace died again");
            return 1;
        }
        println!("DIVERGED: the trace no longer kills the process");
        return 2;
    }
    let ctx = match make_ctx(true) {
        Ok(c) => c,
        Err(e) => {
            eprintln!("HARNESS-ERROR: {}", e);
            return 2;
        }
    };
    let out = execute(&rf.trace, &ctx);
    if std::env::var("MCSIM_VERBOSE").is_ok() {
        for l in out.log.clone().unwrap_or_default() {
            println!("{}", l.chars().take(400).collect::<String>());
        }
    }
    for v in &out.violations {
        println!("violation: {} :: {}", v.key(), v.detail.lines().next().unwrap_or(""));
    }
    if let Some(v) = out.violations.iter().find(|v| v.key() == rf.expect_key) {
        if let Some(f) = findings::match_known(v) {
            println!("KNOWN-FINDING: property={} {} [{}]", rf.property, f.what, f.id);
            return 0;
        }
        println!("VIOLATION property={} replay={}", rf.property, file);
        println!("  class={} sig={}", v.class, v.sig);
        for l in v.detail.lines().take(8) {
            println!("  | {}", l.chars().take(400).collect::<String>());
        }
        println!("  log_hash={:016x}", out.log_hash);
        return 1;
    }
    println!("DIVERGED: expected {} — not reproduced (the tree may have been repaired)", rf.expect_key);
    2
}

pub fn run_trace(file: &str, log: bool) -> i32 {
    if std::env::var("MCSIM_TEST_ABORT_UNIT").is_ok() {
        std::process::abort();
    }
    let text = match std::fs::read_to_string(file) {
        Ok(t) => t,
        Err(e) => {
            eprintln!("cannot read {}: {}", file, e);
            return 2;
        }
    };
    let trace: Trace = match serde_json::from_str::<Trace>(&text) {
        Ok(t) => t,
        Err(_) => match serde_json::from_str::<ReplayFile>(&text) {
            Ok(r) => r.trace,
            Err(e) => {
                eprintln!("not a trace: {}", e);
                return 2;
            }
        },
    };
    let ctx = match make_ctx(log) {
        Ok(c) => c,
        Err(e) => {
            eprintln!("HARNESS-ERROR: {}", e);
            return 2;
        }
    };
    let out = execute(&trace, &ctx);
    if log {
        for l in out.log.clone().unwrap_or_default() {
            println!("{}", l.chars().take(600).collect::<String>());
        }
    }
    for v in &out.violations {
        println!("violation{}: {}\n    {}", if findings::is_known(v) { " (known)" } else { "" }, v.key(), v.detail.replace('\n', "\n    "));
    }
    for n in &out.notes {
        println!("note: {}", n);
    }
    println!("log_hash={:016x} api_calls={} seam_calls={} probes={:?}", out.log_hash, out.stats.api_calls, out.stats.seam_calls, out.stats.probes);
    if let Some(e) = out.harness_error {
        eprintln!("HARNESS-ERROR: {}", e);
        return 2;
    }
    if out.violations.iter().any(|v| !findings::is_known(v)) {
        1
    } else {
        0
    }
}

pub fn show(property: &str, tier: &str, unit: usize) -> i32 {
    let ctx = match make_ctx(false) {
        Ok(c) => c,
        Err(e) => {
            eprintln!("HARNESS-ERROR: {}", e);
            return 2;
        }
    };
    let plan = match plan::build_plan(property, tier, verif_seed(), &ctx) {
        Ok(p) => p,
        Err(e) => {
            eprintln!("HARNESS-ERROR: {}", e);
            return 2;
        }
    };
    if unit >= plan.units.len() {
        eprintln!("plan has {} units", plan.units.len());
        return 2;
    }
    let t = plan::unit_trace(&plan, unit, &ctx);
    println!("{}", serde_json::to_string_pretty(&t).unwrap_or_default());
    0
}

/// Determinism self-test: the same units executed in different processes and at different worker counts must
/// produce identical event-log hashes (two processes = two std RandomState keys, so any dependence of an
/// output on HashMap iteration order shows up here).
pub fn selftest(n_units: usize) -> i32 {
    let args: Vec<String> = std::env::args().collect();
    if args.iter().any(|a| a == "--emit") {
        // child mode: selftest <n> --emit <w> <of>
        let w: usize = args.get(4).and_then(|s| s.parse().ok()).unwrap_or(0);
        let of: usize = args.get(5).and_then(|s| s.parse().ok()).unwrap_or(1);
        let ctx = match make_ctx(false) {
            Ok(c) => c,
            Err(e) => {
                eprintln!("HARNESS-ERROR: {}", e);
                return 2;
            }
        };
        let mut k = 0usize;
        for prop in ALL_PROPS {
            let Ok(plan) = plan::build_plan(prop, "quick", verif_seed(), &ctx) else { continue };
            let total = plan.units.len();
            let take = n_units.min(total);
            // spread over the plan: enumerated cases and seeded units alike
            for j in 0..take {
                let u = j * total / take;
                if k % of == w {
                    let t = plan::unit_trace(&plan, u, &ctx);
                    let out = execute(&t, &ctx);
                    println!("H {} {} {:016x} {}", prop, u, out.log_hash, out.violations.len());
                }
                k += 1;
            }
        }
        return 0;
    }
    let exe = match std::env::current_exe() {
        Ok(e) => e,
        Err(_) => return 2,
    };
    let run = |of: usize| -> Option<BTreeMap<String, String>> {
        let mut children = Vec::new();
        for w in 0..of {
            let c = Command::new(&exe).args(["selftest", &n_units.to_string(), "--emit", &w.to_string(), &of.to_string()]).stdout(Stdio::piped()).stderr(Stdio::inherit()).spawn().ok()?;
            children.push(c);
        }
        let mut m = BTreeMap::new();
        for mut c in children {
            let so = c.stdout.take()?;
            for line in BufReader::new(so).lines().map_while(Result::ok) {
                let p: Vec<&str> = line.split_whitespace().collect();
                if p.len() == 5 && p[0] == "H" {
                    m.insert(format!("{} {}", p[1], p[2]), format!("{} {}", p[3], p[4]));
                }
            }
            let st = c.wait().ok()?;
            if !st.success() {
                return None;
            }
        }
        Some(m)
    };
    let started = Instant::now();
    let a = run(n_workers());
    let b = run((n_workers() / 3).max(1));
    let (Some(a), Some(b)) = (a, b) else {
        eprintln!("HARNESS-ERROR: selftest child failed");
        return 2;
    };
    let mut diffs = 0;
    for (k, v) in &a {
        if b.get(k) != Some(v) {
            diffs += 1;
            if diffs <= 10 {
                println!("NONDETERMINISM: unit {} log hash {} vs {:?}", k, v, b.get(k));
            }
        }
    }
    println!("selftest: {} units executed twice in different processes at worker counts {} and {}: {} differences ({:.1}s)", a.len(), n_workers(), (n_workers() / 3).max(1), diffs, started.elapsed().as_secs_f64());
    let _ = std::io::stdout().flush();
    if diffs > 0 || a.len() != b.len() || a.is_empty() {
        eprintln!("HARNESS-ERROR: nondeterminism detected or empty selftest");
        return 2;
    }
    0
}
