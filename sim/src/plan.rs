//! What a check runs: an ordered list of units (enumerated cases and seeded random traces), built
//! deterministically from (property, tier, VERIF_SEED) in every worker; worker w of N takes units i ≡ w (mod N).
use std::collections::BTreeMap;
use std::sync::Arc;

use crate::exec::{ExecCtx, RunOutput};
use crate::props;
use crate::rng::splitmix64;
use crate::trace::Trace;

pub enum Unit {
    C14Case(props::c14::Case),
    Seeded { gen: String, seed: u64 },
    Fixed(Box<Trace>),
}

pub struct Plan {
    pub property: String,
    pub tier: String,
    pub seed: u64,
    pub units: Vec<Unit>,
    pub level: String,
    pub rule: String,
    pub assumptions: Vec<String>,
    pub c14_reachable: BTreeMap<String, Vec<String>>,
    /// probes that must not stay at zero (a stuck probe is a harness error: the workload does not reach the mechanism)
    pub required_probes: Vec<String>,
    pub exhaustive: bool,
    /// property-specific description of the planned space (written into the evidence as coverage.plan)
    pub extra: serde_json::Value,
}

pub fn run_seed(seed: u64, i: u64) -> u64 {
    let mut x = seed.wrapping_mul(0x9E3779B97F4A7C15) ^ i.wrapping_mul(0xD1B54A32D192ED03);
    splitmix64(&mut x)
}

fn common_assumptions() -> Vec<String> {
    vec![
        "real code: all of MathCAT (preferences, rule compilation with yaml-rust and sxd-xpath, canonicalization, speech, braille, navigation), built from /repo's working tree with --cfg mathcat_verif".to_string(),
        "stubbed behind the verif_hooks seam: OS file system (in-memory SimFs populated from /repo/Rules), file mtimes, wall clock and randomness of the id prefix, user config dir lookup, zip 'write to disk'".to_string(),
        "one fresh OS thread per session (all MathCAT state is thread_local); every run is a pure function of its trace; sampling, not proof".to_string(),
        "argument pools are finite (sim/src/pools.rs): the input space is sampled, not explored".to_string(),
    ]
}

pub fn build_plan(property: &str, tier: &str, seed: u64, ctx: &Arc<ExecCtx>) -> Result<Plan, String> {
    let quick = tier == "quick";
    let mut plan = Plan {
        property: property.to_string(),
        tier: tier.to_string(),
        seed,
        units: vec![],
        level: "exploration".into(),
        rule: String::new(),
        assumptions: common_assumptions(),
        c14_reachable: BTreeMap::new(),
        required_probes: vec![],
        exhaustive: false,
        extra: serde_json::Value::Null,
    };
    let seeded = |plan: &mut Plan, gen: &str, n: u64, salt: u64| {
        for i in 0..n {
            plan.units.push(Unit::Seeded { gen: gen.to_string(), seed: run_seed(seed ^ salt, i) });
        }
    };
    match property {
        "C14" => {
            plan.level = "fault_enumeration".into();
            let en = props::c14::enumerate(ctx, if quick { 2 } else { 7 }, !quick)?;
            plan.c14_reachable = en.reachable;
            let mut by_phase: BTreeMap<String, u64> = BTreeMap::new();
            let mut by_kind: BTreeMap<String, u64> = BTreeMap::new();
            let mut by_mode: BTreeMap<String, u64> = BTreeMap::new();
            let mut by_config: BTreeMap<String, u64> = BTreeMap::new();
            for c in &en.cases {
                *by_phase.entry(format!("{:?}", c.phase)).or_insert(0) += 1;
                *by_kind.entry(crate::faults::kind_name(&c.kind)).or_insert(0) += 1;
                *by_mode.entry(format!("{:?}", c.mode)).or_insert(0) += 1;
                *by_config.entry(format!("{}/{}/{}", c.config.lang, c.config.style, c.config.code)).or_insert(0) += 1;
            }
            plan.extra = serde_json::json!({
                "enumerated_cases": en.cases.len(),
                "cases_by_phase": by_phase, "cases_by_fault_kind": by_kind, "cases_by_repair_mode": by_mode, "cases_by_configuration": by_config,
                "files_read_by_a_fault_free_session": plan.c14_reachable.iter().map(|(k, v)| (k.clone(), v.len())).collect::<BTreeMap<String, usize>>(),
            });
            for c in en.cases {
                plan.units.push(Unit::C14Case(c));
            }
            let mut n_transient = 0;
            for cfg in props::c14::base_configs().iter().take(if quick { 2 } else { 7 }) {
                for t in props::c14::transient_traces(ctx, cfg, !quick)? {
                    plan.units.push(Unit::Fixed(Box::new(t)));
                    n_transient += 1;
                }
            }
            if let Some(o) = plan.extra.as_object_mut() {
                o.insert("enumerated_transient_read_errors".into(), serde_json::json!(n_transient));
            }
            if ctx.zipped_base.is_some() {
                for t in props::c14::zipped_directed() {
                    plan.units.push(Unit::Fixed(Box::new(t)));
                }
            }
            seeded(&mut plan, "c14-random", if quick { 600 } else { 20_000 }, 14);
            plan.rule = "enumeration: every (base configuration x file the fault-free warm-up reads x applicable fault kind x placement phase {cold, warm, before-lazy-full-unicode, switch-into, switch-back-out} x repair mode {CheckRuleFiles=All + later mtime, re-pointing set_rules_dir}) as one trace, plus every single read of a cold start failing once (transient EIO, no repair, retry under CheckRuleFiles=All / re-initialisation under Prefs), plus seeded random fault/call/repair histories; a case is non-trivial when its fault was applied and at least one API call consumed faulted bytes (or probed a removed path) or an injected read error fired; distinct = distinct trace hashes Every probe round starts with one rotating getter (overview, braille or speech) on the expression that is still current, before the round sets its expression again, compared with a fresh session; phase SwitchTouchBack makes ONE call in the faulted configuration and switches back.".into();
            plan.required_probes = vec!["fault_applied", "call_consumed_fault", "error_names_file", "recovered_identical", "equals_fresh_session", "first_getter_equals_fresh_session", "cached_table_keeps_answering"].into_iter().map(String::from).collect();
            plan.exhaustive = false;
        }
        "C08" => {
            let names = props::common::pref_names(&ctx.base);
            for t in props::c08::directed(&names) {
                plan.units.push(Unit::Fixed(Box::new(t)));
            }
            let en = props::c14::reachable_files(ctx, &props::common::Config::new("en", "ClearSpeak", "Nemeth"))?;
            plan.c14_reachable.insert("en".into(), en);
            seeded(&mut plan, "c08-random", if quick { 2000 } else { 60_000 }, 8);
            plan.rule = "directed: every entry point as the first call of a session and right after set_rules_dir; every entry point right after each class of error; every preference name x 12 value classes followed by the calls that consume the value (under no engine, SSML, SAPI5); plus seeded random histories of 5-120 calls over all 16 entry points with valid, invalid, wrong-kind, empty, stale and out-of-range arguments (20% of the runs also break rule files mid-history). Oracles: every call returns Ok or Err (panics caught, aborts/hangs by the supervisor); recovery: a valid expression set next yields byte for byte what a fresh session with the same preference values yields; a failed set_mathml leaves the previous outputs unchanged. non-trivial = at least one call returned an error; distinct = distinct trace hashes Also: every pool expression (incl. the regression section: minimised expressions of repaired defects) through every output, navigation and routing call under every braille code and fed back; every documented value of the style preferences over stress expressions; wrong initialisations while a user preference file exists; preference-file edits in 12% of the fault-free random histories; expressions from the pools, a corpus of 1500 expressions of the repository's tests and a seeded MathML generator. After each history the session's preference values are compared with a fresh session reading the same files and replaying the accepted set_preference calls.".into();
            plan.required_probes = vec!["api_error_seen", "recovered_like_fresh_session", "failed_set_mathml_checked"].into_iter().map(String::from).collect();
        }
        "C12" => {
            let names = props::common::pref_names(&ctx.base);
            for t in props::c12::directed(&names) {
                plan.units.push(Unit::Fixed(Box::new(t)));
            }
            seeded(&mut plan, "c12-random", if quick { 2000 } else { 60_000 }, 12);
            plan.rule = "directed: every preference name (prefs.yaml + API defaults + two unknown names) x 12 value classes interleaved with set_mathml; API-set values across touch / rewrite / edit of the system and user prefs.yaml (with and without a user configuration directory) and across set_rules_dir; Language/LanguageAuto flows; rejected-then-accepted sequences. Plus seeded random histories of set_preference/get_preference over all names x value classes interleaved with set_mathml, getters, navigation and (35% of runs) preference-file events. After every step the full preference snapshot is compared with the reference model (read-back normalisations, only documented derivations may change), rejected sets must leave all preferences and all outputs unchanged, unknown names and wrong-kind values must be rejected, braille-/speech-/navigation-only preferences must leave the other outputs byte-identical. non-trivial = at least one set was accepted and one rejected; distinct = distinct trace hashes Also: scope scenarios (every braille code x speech engine x speech-only/braille-only preferences over chemistry, tables, capitals, numbers), a file change first noticed by routing/highlighting/navigation calls, and the whole preference snapshot against a fresh session replaying the accepted calls.".into();
            plan.required_probes = vec!["read_back_ok", "set_rejected", "frame_held", "rejected_set_left_outputs", "persisted_across_set_mathml", "prefs_file_event", "rejection_repeatable", "prefs_equal_fresh_session"].into_iter().map(String::from).collect();
        }
        "C09" => {
            for t in props::c09::directed() {
                plan.units.push(Unit::Fixed(Box::new(t)));
            }
            seeded(&mut plan, "c09-random", if quick { 2000 } else { 50_000 }, 9);
            plan.rule = "directed: MathCAT's own output fed back in the same simulated millisecond with a repeating random part (prefix collision), tokens with MathCAT ids re-wrapped, duplicate author ids, bookmarks (SSML, SAPI5) and routing at five cells over every id-bearing expression; plus seeded random histories (expressions with no/some/all/duplicate author ids and fed-back output, navigation commands, key presses, set_navigation_node, speech with bookmarks, routing, across valid and failed changes of expression) under clock faults (stalled clock, same millisecond, clock near 36^3 ms, 2001) and repeated id-prefix randomness. Invariants after every step: every element has an id, ids distinct, navigation id / bookmark marks / routed ids are ids of the MathML returned by the last successful set_mathml. non-trivial = at least one handed-out id was checked; distinct = distinct trace hashes Also: every pool expression set and fed back (normally and with a repeating id prefix); generated expressions with no, some or all elements carrying author ids; the author-id oracle (an id of a token or 2-D element is returned on an element carrying the token's text; not lost, dropped on a split, or replaced by a wrapper's id).".into();
            plan.required_probes = vec!["ids_unique", "handed_out_id_checked", "bookmarks_seen", "routing_id_checked", "own_output_fed_back", "author_id_on_its_text"].into_iter().map(String::from).collect();
        }
        "C20" => {
            for t in props::c20::directed(!quick) {
                plan.units.push(Unit::Fixed(Box::new(t)));
            }
            seeded(&mut plan, "c20-random", if quick { 1200 } else { 30_000 }, 20);
            plan.rule = "directed: for 7 braille codes x 4 highlight styles, get_braille(id) for the first 24 ids and a non-id, get_navigation_node_from_braille_position(k) for k in 0..40, len, len+1, and get_braille_position / get_braille(nav id) along a navigation walk; read errors injected at the 1st-3rd read inside routing with the user's highlight style Off; plus seeded random histories mixing navigation commands, changes of expression/code/style with the three queries (25% of runs with injected transient read errors under CheckRuleFiles=All). Oracle: the full preference snapshot, navigation position, plain braille and speech are identical before and after each query (also a failed one); fault-free: queries succeed for ids and cells of the current expression, start <= end <= length, returned ids belong to the expression; with Off or a foreign id the braille equals the plain get_braille of the empty id. non-trivial = at least one query checked; distinct = distinct trace hashes Also: the routing-key pattern (set_navigation_node(id, offset>0), position queries, moves); 'unhighlighted' = braille of a fresh session with BrailleNavHighlight=Off; after every query braille, speech and overview equal those of a fresh session that made no query; the regression section of the pool under every code.".into();
            plan.required_probes = vec!["query_pure", "failed_query_pure", "position_in_range", "routing_ok", "unhighlighted_equal", "equals_braille_with_highlight_off", "outputs_like_session_without_queries", "highlight_ok"].into_iter().map(String::from).collect();
        }
        "C10" => {
            let d = props::c10::directed();
            let nd = d.len();
            for (i, t) in d.into_iter().enumerate() {
                // quick: a rotating third of the away-and-back pairs (all of them in thorough)
                // (pairs of a regional variant and its parent are always run: they share files through include:)
                let rotating = (t.origin.starts_with("directed away-and-back") || t.origin.starts_with("directed sparse away-and-back")) && !(t.origin.contains("en-gb->en->") || t.origin.contains(" en->en-gb->") || t.origin.contains("CheckRuleFiles=None"));
                if !quick || !rotating || i % 3 == (seed as usize) % 3 || i + 1 == nd {
                    plan.units.push(Unit::Fixed(Box::new(t)));
                }
            }
            seeded(&mut plan, "c10-random", if quick { 700 } else { 30_000 }, 10);
            seeded(&mut plan, "c10-multi", if quick { 150 } else { 3_000 }, 1010);
            if ctx.zipped_base.is_some() {
                seeded(&mut plan, "c10-multi-zipped", if quick { 40 } else { 2_000 }, 2010);
            }
            plan.rule = "directed: every ordered pair X->Y->X of values of Language, SpeechStyle, BrailleCode, Verbosity, TTS, DecimalSeparator, BlockSeparators, CheckRuleFiles over eight expressions with checkpoints before, away and back (getters 1..n times in different orders, navigation and routing between reads) and the Language=Auto/LanguageAuto flows; seeded random histories of 15-90 preference switches (39 preferences), set_mathml, getters, navigation, routing, set_rules_dir, clock advances and touches of rule files (mtime moves, content does not) with checkpoints in re-set and as-is mode: the four outputs must equal byte for byte (ids normalised) those of a fresh session given the session's current preference values; and multi-session runs: 2-3 sessions with different configurations in one world interleaved by the seeded baton scheduler at every API call and every seam call, each session's results must equal those of its solo run. non-trivial = at least one checkpoint or solo comparison was made; distinct = distinct trace hashes Also: sparse checkpoints (only the named getters are called) in directed sparse away-and-back scenarios; every pool expression under three configurations; multi-session runs in which all sessions work on the same expression under different configurations.".into();
            plan.required_probes = vec!["checkpoint_reset_equal", "checkpoint_asis_equal", "getter_repeated_same", "touch_forces_reload", "session_equals_solo_run"].into_iter().map(String::from).collect();
        }
        "C11" => {
            for t in props::c11::directed() {
                plan.units.push(Unit::Fixed(Box::new(t)));
            }
            seeded(&mut plan, "c11-random", if quick { 3000 } else { 60_000 }, 11);
            plan.rule = "directed scenarios (place marker across a change of expression, undo after the invisible-operator retry loop, walks in every navigation mode, failed set_mathml, set_navigation_node) plus seeded random histories of 5-150 navigation commands / key presses / set_navigation_node / changes of expression (valid, invalid, fed-back) over every pool expression and navigation preference; after every step the reference model (position, undo stack, ten place markers) and the invariants (id in current expression, MathML and braille of the node retrievable) are checked; non-trivial = at least one command changed the position; distinct = distinct trace hashes Also: every key with each of the 16 modifier combinations from inside a table cell and from a token, in every navigation mode; expressions from pools, corpus and the seeded generator.".into();
            plan.required_probes = vec!["position_changed", "undo_returned", "moved_to_placemarker", "read_command_stayed", "expression_changed", "undo_at_bottom", "set_navigation_node_ok"].into_iter().map(String::from).collect();
        }
        _ => return Err(format!("no plan for property {}", property)),
    }
    Ok(plan)
}

pub fn unit_trace(plan: &Plan, i: usize, ctx: &Arc<ExecCtx>) -> Trace {
    match &plan.units[i] {
        Unit::C14Case(c) => props::c14::case_trace(c),
        Unit::Seeded { gen, seed } => match gen.as_str() {
            "c14-random" => props::c14::random_trace(*seed, ctx, &plan.c14_reachable),
            "c11-random" => props::c11::random_trace(*seed),
            "c10-random" => props::c10::random_trace(*seed),
            "c10-multi" => props::c10::multi_session_trace(*seed, false),
            "c10-multi-zipped" => props::c10::multi_session_trace(*seed, true),
            "c09-random" => props::c09::random_trace(*seed),
            "c20-random" => props::c20::random_trace(*seed),
            "c12-random" => props::c12::random_trace(*seed, &props::common::pref_names(&ctx.base)),
            "c08-random" => props::c08::random_trace(*seed, &props::common::pref_names(&ctx.base), plan.c14_reachable.get("en").map(|v| v.as_slice()).unwrap_or(&[])),
            _ => Trace::new(&plan.property, "none"),
        },
        Unit::Fixed(t) => (**t).clone(),
    }
}

pub fn unit_label(plan: &Plan, i: usize) -> String {
    match &plan.units[i] {
        Unit::C14Case(_) => format!("case{}", i),
        Unit::Seeded { seed, .. } => format!("seed{}", seed),
        Unit::Fixed(_) => format!("directed{}", i),
    }
}

pub fn nontrivial(property: &str, out: &RunOutput) -> bool {
    match property {
        "C14" => out.stats.probes.get("call_consumed_fault").copied().unwrap_or(0) > 0 || out.stats.faults_consumed.values().sum::<u64>() > 0,
        "C08" => out.stats.api_err > 0,
        "C10" => out.stats.probes.get("checkpoint_reset_equal").copied().unwrap_or(0) + out.stats.probes.get("checkpoint_asis_equal").copied().unwrap_or(0) + out.stats.probes.get("session_equals_solo_run").copied().unwrap_or(0) > 0,
        "C09" => out.stats.probes.get("handed_out_id_checked").copied().unwrap_or(0) > 0,
        "C20" => out.stats.probes.get("query_pure").copied().unwrap_or(0) > 0,
        "C12" => out.stats.probes.get("read_back_ok").copied().unwrap_or(0) > 0 && out.stats.probes.get("set_rejected").copied().unwrap_or(0) > 0,
        "C11" => out.stats.probes.get("position_changed").copied().unwrap_or(0) > 0,
        _ => out.stats.api_calls > 3,
    }
}
