//! Workload source "Gen": a seeded generator of structurally diverse MathML (with no, some or all elements carrying
//! author ids), plus a small XML tree used by the C09 author-id oracle and by the expression phase of the shrinker.
//! Everything is a pure function of the seed (one more stream of the run's PRNG); nothing here is consulted by MathCAT.
use crate::rng::Rng;

// ---------------------------------------------------------------------------------------------------
// a small XML tree (enough for MathML as written by the pools, the generator and MathCAT's pretty printer)

#[derive(Clone, Debug, PartialEq)]
pub enum Node {
    El(El),
    Text(String),
}

#[derive(Clone, Debug, PartialEq, Default)]
pub struct El {
    pub name: String,
    pub attrs: Vec<(String, String)>,
    pub kids: Vec<Node>,
}

impl El {
    pub fn attr(&self, n: &str) -> Option<&str> {
        self.attrs.iter().find(|(k, _)| k == n).map(|(_, v)| v.as_str())
    }

    /// concatenated text of the subtree (entities decoded for the numeric and the few named ones the pools use)
    pub fn text(&self) -> String {
        let mut out = String::new();
        fn rec(e: &El, out: &mut String) {
            for k in &e.kids {
                match k {
                    Node::Text(t) => out.push_str(&decode_entities(t)),
                    Node::El(c) => {
                        // annotations are not part of the math
                        if c.name != "annotation" && c.name != "annotation-xml" {
                            rec(c, out)
                        }
                    }
                }
            }
        }
        rec(self, &mut out);
        out
    }

    pub fn elements(&self) -> Vec<&El> {
        let mut v = vec![self];
        for k in &self.kids {
            if let Node::El(c) = k {
                v.extend(c.elements());
            }
        }
        v
    }

    pub fn is_token(&self) -> bool {
        matches!(self.name.as_str(), "mi" | "mn" | "mo" | "mtext" | "ms")
    }

    pub fn write(&self, out: &mut String) {
        out.push('<');
        out.push_str(&self.name);
        for (k, v) in &self.attrs {
            out.push(' ');
            out.push_str(k);
            out.push_str("='");
            out.push_str(&v.replace('\'', "&apos;"));
            out.push('\'');
        }
        if self.kids.is_empty() && !self.is_token() {
            out.push_str("/>");
            return;
        }
        out.push('>');
        for k in &self.kids {
            match k {
                Node::Text(t) => out.push_str(t),
                Node::El(c) => c.write(out),
            }
        }
        out.push_str("</");
        out.push_str(&self.name);
        out.push('>');
    }

    pub fn to_xml(&self) -> String {
        let mut s = String::new();
        self.write(&mut s);
        s
    }
}

pub fn decode_entities(t: &str) -> String {
    if !t.contains('&') {
        return t.to_string();
    }
    let mut out = String::new();
    let mut rest = t;
    while let Some(i) = rest.find('&') {
        out.push_str(&rest[..i]);
        let tail = &rest[i..];
        if let Some(j) = tail.find(';') {
            let ent = &tail[1..j];
            let decoded = if let Some(hex) = ent.strip_prefix("#x").or_else(|| ent.strip_prefix("#X")) {
                u32::from_str_radix(hex, 16).ok().and_then(char::from_u32)
            } else if let Some(dec) = ent.strip_prefix('#') {
                dec.parse::<u32>().ok().and_then(char::from_u32)
            } else {
                match ent {
                    "lt" => Some('<'),
                    "gt" => Some('>'),
                    "amp" => Some('&'),
                    "apos" => Some('\''),
                    "quot" => Some('"'),
                    "nbsp" => Some('\u{a0}'),
                    "InvisibleTimes" | "it" => Some('\u{2062}'),
                    "ApplyFunction" | "af" => Some('\u{2061}'),
                    "minus" => Some('\u{2212}'),
                    "times" => Some('\u{d7}'),
                    "pi" => Some('\u{3c0}'),
                    _ => None,
                }
            };
            match decoded {
                Some(c) => {
                    out.push(c);
                    rest = &tail[j + 1..];
                }
                None => {
                    out.push('&');
                    rest = &tail[1..];
                }
            }
        } else {
            out.push('&');
            rest = &tail[1..];
        }
    }
    out.push_str(rest);
    out
}

/// Parse a serialized element. None when the string is not of the simple shape handled here (the callers then skip
/// their check and count it).
pub fn parse(src: &str) -> Option<El> {
    let b = src.as_bytes();
    let mut i = 0usize;
    let mut stack: Vec<El> = Vec::new();
    let mut root: Option<El> = None;
    while i < b.len() {
        if b[i] == b'<' {
            if src[i..].starts_with("<!--") {
                let j = src[i..].find("-->")?;
                i += j + 3;
                continue;
            }
            if src[i..].starts_with("<?") {
                let j = src[i..].find("?>")?;
                i += j + 2;
                continue;
            }
            if src[i..].starts_with("<!") {
                return None; // DOCTYPE, CDATA: not handled
            }
            let j = i + src[i..].find('>')?;
            let inner = &src[i + 1..j];
            i = j + 1;
            if let Some(name) = inner.strip_prefix('/') {
                let e = stack.pop()?;
                if e.name != name.trim() {
                    return None;
                }
                match stack.last_mut() {
                    Some(p) => p.kids.push(Node::El(e)),
                    None => {
                        if root.is_some() {
                            return None;
                        }
                        root = Some(e)
                    }
                }
                continue;
            }
            let (inner, selfclose) = match inner.strip_suffix('/') {
                Some(x) => (x, true),
                None => (inner, false),
            };
            let inner = inner.trim();
            let name_end = inner.find(|c: char| c.is_whitespace()).unwrap_or(inner.len());
            let mut e = El { name: inner[..name_end].to_string(), attrs: vec![], kids: vec![] };
            if e.name.is_empty() {
                return None;
            }
            let mut rest = inner[name_end..].trim_start();
            while !rest.is_empty() {
                let eq = rest.find('=')?;
                let k = rest[..eq].trim().to_string();
                let after = rest[eq + 1..].trim_start();
                let q = after.chars().next()?;
                if q != '\'' && q != '"' {
                    return None;
                }
                let close = after[1..].find(q)?;
                e.attrs.push((k, decode_entities(&after[1..1 + close])));
                rest = after[close + 2..].trim_start();
            }
            if selfclose {
                match stack.last_mut() {
                    Some(p) => p.kids.push(Node::El(e)),
                    None => {
                        if root.is_some() {
                            return None;
                        }
                        root = Some(e)
                    }
                }
            } else {
                stack.push(e);
            }
        } else {
            let j = src[i..].find('<').map(|k| i + k).unwrap_or(b.len());
            let t = &src[i..j];
            i = j;
            match stack.last_mut() {
                Some(p) => {
                    // whitespace between elements (pretty printing) is not content; inside tokens it is kept
                    if !(t.trim().is_empty() && !p.is_token()) {
                        p.kids.push(Node::Text(t.to_string()))
                    }
                }
                None => {
                    if !t.trim().is_empty() {
                        return None;
                    }
                }
            }
        }
    }
    if !stack.is_empty() {
        return None;
    }
    root
}

// ---------------------------------------------------------------------------------------------------
// the generator

const MI: &[&str] = &[
    "a", "b", "c", "x", "y", "z", "n", "k", "f", "g", "i", "e", "d", "A", "B", "M", "H", "O", "C", "N", "Na", "Cl", "Fe", "sin", "cos", "tan", "log", "ln", "lim", "exp", "max", "det", "&#x3B1;", "&#x3B2;", "&#x3C0;",
    "&#x3B8;", "&#x394;", "&#x221E;", "&#x211D;", "&#x2102;", "&#x1D465;", "&#x1D400;", "&#x2026;", "&#x2205;", "AB", "XY", "ii", "XIV", "dx", "",
];
const MN: &[&str] = &[
    "0", "1", "2", "3", "5", "10", "12", "30", "100", "2.5", "0.5", ".5", "3.", "1,234", "1,234.5", "1.234,5", "1 000", "12&#xA0;345", "-2", "&#x2212;3", "-0.5", "+4", "&#x663;", "&#xBD;", "2e3", "0x1F", "1/2", "",
];
const MO: &[&str] = &[
    "+", "-", "&#x2212;", "=", "&lt;", "&gt;", "&#x2264;", "&#x2260;", "&#xD7;", "&#x22C5;", "&#xB7;", "/", "*", "(", ")", "[", "]", "{", "}", "|", "&#x2016;", ",", ";", ":", ".", "!", "'", "&#x2032;", "&#x2033;",
    "&#x2192;", "&#x21CC;", "&#x2211;", "&#x222B;", "&#x220F;", "&#x222A;", "&#x2229;", "&#x2208;", "&#x2062;", "&#x2061;", "&#x2063;", "&#x2064;", "&#xAF;", "^", "~", "&#x2D9;", "&#x2026;", "&#x22EF;", "&#xB0;", "%",
    "&#x2202;", "&#x2207;", "&#x221A;", "&#x2223;", "&#x27E8;", "&#x27E9;", "==", "...", "&#x2061;", " ", "",
];
const MTEXT: &[&str] = &["if", "and", " ", "&#xA0;", "x is", "(1)", "cm", "otherwise", "", "for all", "m/s", "1st"];
const VARIANTS: &[&str] = &["normal", "bold", "italic", "bold-italic", "double-struck", "script", "fraktur", "sans-serif", "monospace"];
const ID_BASES: &[&str] = &["a", "b", "x", "n", "id", "mjx-", "t_", "E", "k.", "m:", "&#xE9;", "0", "M", "MJX-", "node", "_"];

#[derive(Clone, Copy, PartialEq, Debug)]
pub enum IdMode {
    None,
    Some,
    All,
}

struct Gen {
    rng: Rng,
    ids: IdMode,
    next_id: usize,
    budget: isize,
}

impl Gen {
    fn el(&mut self, name: &str, kids: Vec<Node>) -> El {
        self.budget -= 1;
        let mut e = El { name: name.to_string(), attrs: vec![], kids };
        let with_id = match self.ids {
            IdMode::None => false,
            IdMode::Some => self.rng.chance(0.35),
            IdMode::All => true,
        };
        if with_id {
            // distinct within the expression (duplicate author ids are a separate, recorded case)
            let base = *self.rng.pick(ID_BASES);
            e.attrs.push(("id".into(), decode_entities(&format!("{}{}", base, self.next_id))));
            self.next_id += 1;
        }
        if self.rng.chance(0.06) {
            let extra: (&str, &str) = match self.rng.below(6) {
                0 => ("mathcolor", "red"),
                1 => ("class", "c1 c2"),
                2 => ("data-x", "1"),
                3 => ("href", "#top"),
                4 => ("displaystyle", "true"),
                _ => ("style", "color:blue"),
            };
            e.attrs.push((extra.0.into(), extra.1.into()));
        }
        e
    }

    fn token(&mut self, name: &str, text: &str) -> Node {
        let mut e = self.el(name, if text.is_empty() { vec![] } else { vec![Node::Text(text.to_string())] });
        if (name == "mi" || name == "mn" || name == "mtext") && self.rng.chance(0.12) {
            e.attrs.push(("mathvariant".into(), self.rng.pick(VARIANTS).to_string()));
        }
        if name == "mo" && self.rng.chance(0.08) {
            let a: (&str, &str) = match self.rng.below(5) {
                0 => ("stretchy", "false"),
                1 => ("form", "prefix"),
                2 => ("form", "postfix"),
                3 => ("fence", "true"),
                _ => ("separator", "true"),
            };
            e.attrs.push((a.0.into(), a.1.into()));
        }
        Node::El(e)
    }

    fn leaf(&mut self) -> Node {
        match self.rng.below(20) {
            0..=7 => {
                let t = *self.rng.pick(MI);
                self.token("mi", t)
            }
            8..=13 => {
                let t = *self.rng.pick(MN);
                self.token("mn", t)
            }
            14..=16 => {
                let t = *self.rng.pick(MO);
                self.token("mo", t)
            }
            17 => {
                let t = *self.rng.pick(MTEXT);
                self.token("mtext", t)
            }
            18 => {
                let mut e = self.el("mspace", vec![]);
                e.attrs.push(("width".into(), self.rng.pick(&["1em", "0.2em", "0", "-0.1em", "2em"]).to_string()));
                Node::El(e)
            }
            _ => {
                let e = self.el("mrow", vec![]);
                Node::El(e)
            }
        }
    }

    fn seq(&mut self, depth: usize, lo: usize, hi: usize) -> Vec<Node> {
        let n = self.rng.range(lo, hi);
        let mut v = Vec::new();
        let mut k = 0;
        while k < n {
            if self.rng.chance(0.3) {
                v.extend(self.idiom(depth));
            } else {
                v.push(self.expr(depth));
                if k + 1 < n && self.rng.chance(0.6) {
                    let t = *self.rng.pick(&["+", "&#x2212;", "=", "&#x2062;", ",", "&#x22C5;", "&lt;", "-", "/", "&#x2208;"]);
                    v.push(self.token("mo", t));
                }
            }
            k += 1;
        }
        v
    }

    /// sibling sequences that canonicalization restructures
    fn idiom(&mut self, depth: usize) -> Vec<Node> {
        let d = depth + 1;
        match self.rng.below(22) {
            0 => {
                let f = *self.rng.pick(&["sin", "cos", "log", "ln", "f", "g", "exp"]);
                let arg = self.expr(d);
                vec![self.token("mi", f), self.token("mo", "&#x2061;"), arg]
            }
            1 => {
                let f = *self.rng.pick(&["f", "g", "sin", "P", "h"]);
                let args = self.seq(d, 1, 2);
                let mut v = vec![self.token("mi", f), self.token("mo", "(")];
                v.extend(args);
                v.push(self.token("mo", ")"));
                v
            }
            2 => vec![self.token("mn", "1"), self.token("mo", ","), self.token("mn", "234"), self.token("mo", "."), self.token("mn", "5")],
            3 => vec![self.token("mn", "3"), self.token("mo", "."), self.token("mn", "14")],
            4 => vec![self.token("mi", "s"), self.token("mi", "i"), self.token("mi", "n"), self.token("mi", "x")],
            5 => {
                let sub = self.token("mn", "2");
                let h = self.token("mi", "H");
                let hs = Node::El(self.el("msub", vec![h, sub]));
                vec![hs, self.token("mi", "O")]
            }
            6 => {
                let body = self.seq(d, 1, 2);
                let mut v = vec![self.token("mo", "|")];
                v.extend(body);
                v.push(self.token("mo", "|"));
                v
            }
            7 => {
                let f = self.token("mi", "f");
                let p = *self.rng.pick(&["'", "&#x2032;", "&#x2033;", "''"]);
                let pr = self.token("mo", p);
                if self.rng.chance(0.5) {
                    vec![Node::El(self.el("msup", vec![f, pr]))]
                } else {
                    vec![f, pr]
                }
            }
            8 => {
                let n = self.token("mn", "3");
                let a = self.token("mn", "1");
                let b = self.token("mn", "2");
                vec![n, Node::El(self.el("mfrac", vec![a, b]))]
            }
            9 => {
                let body = self.seq(d, 1, 2);
                let mut v = vec![self.token("mo", "&#x222B;")];
                v.extend(body);
                v.push(self.token("mi", "d"));
                v.push(self.token("mi", "x"));
                v
            }
            10 => vec![self.token("mo", "-"), self.token("mn", "2")],
            11 => {
                let t = *self.rng.pick(&["-2", "&#x2212;3", "-0.5", "&#x2212;1,000"]);
                vec![self.token("mn", t)]
            }
            12 => {
                let n = self.token("mn", "30");
                let deg = self.token("mo", "&#xB0;");
                vec![Node::El(self.el("msup", vec![n, deg]))]
            }
            13 => {
                // chemistry with pre-scripts
                let c = self.token("mi", "C");
                let pre = Node::El(self.el("mprescripts", vec![]));
                let a = self.token("mn", "6");
                let b = self.token("mn", "14");
                vec![Node::El(self.el("mmultiscripts", vec![c, pre, a, b]))]
            }
            14 => {
                // reaction arrow with conditions
                let l = self.token("mi", "A");
                let arrow = self.token("mo", "&#x2192;");
                let over = self.token("mtext", "heat");
                let m = Node::El(self.el("mover", vec![arrow, over]));
                vec![l, m, self.token("mi", "B")]
            }
            15 => {
                let open = *self.rng.pick(&["(", "[", "{", "&#x27E8;", "|"]);
                let close = *self.rng.pick(&[")", "]", "}", "&#x27E9;", "|"]);
                let body = self.seq(d, 1, 3);
                let mut v = vec![self.token("mo", open)];
                v.extend(body);
                v.push(self.token("mo", close));
                v
            }
            16 => {
                let a = self.expr(d);
                let b = self.expr(d);
                vec![a, self.token("mo", "&#x2062;"), b]
            }
            17 => {
                // ion: base with empty-base scripts
                let e1 = Node::El(self.el("mrow", vec![]));
                let two = self.token("mn", "2");
                let pre = Node::El(self.el("msub", vec![e1, two]));
                let h = self.token("mi", "H");
                let e2 = Node::El(self.el("mrow", vec![]));
                let plus = self.token("mo", "+");
                let post = Node::El(self.el("msup", vec![e2, plus]));
                vec![pre, h, post]
            }
            18 => vec![self.token("mi", "x"), self.token("mo", "!"), self.token("mo", "+"), self.token("mn", "2"), self.token("mi", "y")],
            19 => {
                let lim = self.token("mi", "lim");
                let x = self.token("mi", "x");
                let to = self.token("mo", "&#x2192;");
                let z = self.token("mn", "0");
                let under = Node::El(self.el("mrow", vec![x, to, z]));
                let l = Node::El(self.el("munder", vec![lim, under]));
                vec![l, self.expr(d)]
            }
            20 => vec![self.token("mtext", "if "), self.expr(d), self.token("mtext", "&#xA0;then&#xA0;"), self.expr(d)],
            _ => {
                let n = self.token("mn", "5");
                let u = *self.rng.pick(&["cm", "m", "kg", "s"]);
                let unit = self.token("mi", u);
                if let Node::El(mut e) = unit {
                    e.attrs.push(("mathvariant".into(), "normal".into()));
                    if self.rng.chance(0.5) {
                        e.attrs.push(("class".into(), "MathML-Unit".into()));
                    }
                    vec![n, Node::El(e)]
                } else {
                    vec![n]
                }
            }
        }
    }

    fn scripts_base(&mut self, depth: usize) -> Node {
        if self.rng.chance(0.7) {
            self.leaf()
        } else {
            self.expr(depth)
        }
    }

    fn expr(&mut self, depth: usize) -> Node {
        if depth >= 4 || self.budget <= 0 || self.rng.chance(0.35) {
            return self.leaf();
        }
        let d = depth + 1;
        match self.rng.below(30) {
            0..=4 => {
                let kids = self.seq(d, 0, 4);
                Node::El(self.el("mrow", kids))
            }
            5 | 6 => {
                let a = self.expr(d);
                let b = self.expr(d);
                let mut e = self.el("mfrac", vec![a, b]);
                if self.rng.chance(0.15) {
                    e.attrs.push(("linethickness".into(), "0".into()));
                }
                if self.rng.chance(0.1) {
                    e.attrs.push(("bevelled".into(), "true".into()));
                }
                Node::El(e)
            }
            7 => {
                let kids = self.seq(d, 1, 3);
                Node::El(self.el("msqrt", kids))
            }
            8 => {
                let a = self.expr(d);
                let b = self.leaf();
                Node::El(self.el("mroot", vec![a, b]))
            }
            9 | 10 => {
                let a = self.scripts_base(d);
                let b = self.expr(d);
                Node::El(self.el("msup", vec![a, b]))
            }
            11 | 12 => {
                let a = self.scripts_base(d);
                let b = self.expr(d);
                Node::El(self.el("msub", vec![a, b]))
            }
            13 => {
                let a = self.scripts_base(d);
                let b = self.leaf();
                let c = self.expr(d);
                Node::El(self.el("msubsup", vec![a, b, c]))
            }
            14 => {
                let big = *self.rng.pick(&["&#x2211;", "&#x222B;", "&#x220F;", "lim", "&#x22C3;", "max"]);
                let a = if big.len() <= 3 && !big.starts_with('&') { self.token("mi", big) } else { self.token("mo", big) };
                let b = self.expr(d);
                let name = *self.rng.pick(&["munder", "mover"]);
                Node::El(self.el(name, vec![a, b]))
            }
            15 => {
                let big = *self.rng.pick(&["&#x2211;", "&#x222B;", "&#x220F;"]);
                let a = self.token("mo", big);
                let b = self.expr(d);
                let c = self.expr(d);
                let name = *self.rng.pick(&["munderover", "msubsup"]);
                Node::El(self.el(name, vec![a, b, c]))
            }
            16 => {
                let a = self.expr(d);
                let acc = *self.rng.pick(&["&#xAF;", "^", "~", "&#x2192;", "&#x2D9;", "&#x23DE;", "_"]);
                let b = self.token("mo", acc);
                let name = *self.rng.pick(&["mover", "munder"]);
                let mut e = self.el(name, vec![a, b]);
                if self.rng.chance(0.4) {
                    e.attrs.push((if name == "mover" { "accent" } else { "accentunder" }.into(), "true".into()));
                }
                Node::El(e)
            }
            17 | 18 => {
                // mmultiscripts: base, post pairs, optional prescripts and pre pairs; `none` placeholders
                let mut kids = vec![self.scripts_base(d)];
                let n_post = self.rng.below(3);
                for _ in 0..n_post {
                    for _ in 0..2 {
                        if self.rng.chance(0.3) {
                            kids.push(Node::El(self.el("none", vec![])));
                        } else {
                            kids.push(self.leaf());
                        }
                    }
                }
                if self.rng.chance(0.6) {
                    kids.push(Node::El(self.el("mprescripts", vec![])));
                    let n_pre = self.rng.range(1, 2);
                    for _ in 0..n_pre {
                        for _ in 0..2 {
                            if self.rng.chance(0.3) {
                                kids.push(Node::El(self.el("none", vec![])));
                            } else {
                                kids.push(self.leaf());
                            }
                        }
                    }
                }
                Node::El(self.el("mmultiscripts", kids))
            }
            19 | 20 => {
                let kids: Vec<Node> = (0..self.rng.range(0, 3)).map(|_| self.expr(d)).collect();
                let mut e = self.el("mfenced", kids);
                if self.rng.chance(0.5) {
                    e.attrs.push(("open".into(), self.rng.pick(&["[", "{", "|", "", "&#x27E8;", "("]).to_string()));
                    e.attrs.push(("close".into(), self.rng.pick(&["]", "}", "|", "", "&#x27E9;", ")"]).to_string()));
                }
                if self.rng.chance(0.3) {
                    e.attrs.push(("separators".into(), self.rng.pick(&[";", "", ",;", "|", " "]).to_string()));
                }
                for a in e.attrs.iter_mut() {
                    a.1 = decode_entities(&a.1);
                }
                Node::El(e)
            }
            21 | 22 => {
                let rows = self.rng.range(1, 3);
                let cols = self.rng.range(1, 3);
                let mut trs = Vec::new();
                for r in 0..rows {
                    let mut tds = Vec::new();
                    let labeled = self.rng.chance(0.1);
                    if labeled {
                        let l = self.token("mtext", &format!("({})", r + 1));
                        tds.push(Node::El(self.el("mtd", vec![l])));
                    }
                    let this_cols = if self.rng.chance(0.1) { self.rng.range(0, 3) } else { cols };
                    for _ in 0..this_cols {
                        let kids = self.seq(d + 1, 0, 2);
                        tds.push(Node::El(self.el("mtd", kids)));
                    }
                    trs.push(Node::El(self.el(if labeled { "mlabeledtr" } else { "mtr" }, tds)));
                }
                let mut t = self.el("mtable", trs);
                if self.rng.chance(0.3) {
                    t.attrs.push(("columnalign".into(), self.rng.pick(&["left", "right left", "center"]).to_string()));
                }
                let t = Node::El(t);
                match self.rng.below(4) {
                    0 => {
                        let o = self.token("mo", "(");
                        let c = self.token("mo", ")");
                        Node::El(self.el("mrow", vec![o, t, c]))
                    }
                    1 => {
                        let o = self.token("mo", "{");
                        Node::El(self.el("mrow", vec![o, t]))
                    }
                    2 => {
                        let o = self.token("mo", "|");
                        let c = self.token("mo", "|");
                        Node::El(self.el("mrow", vec![o, t, c]))
                    }
                    _ => t,
                }
            }
            23 => {
                let kids = self.seq(d, 1, 2);
                let mut e = self.el("menclose", kids);
                if self.rng.chance(0.8) {
                    e.attrs.push(("notation".into(), self.rng.pick(&["box", "updiagonalstrike", "longdiv", "radical", "circle", "top bottom", "phasorangle", "nonsense"]).to_string()));
                }
                Node::El(e)
            }
            24 => {
                let kids = self.seq(d, 0, 2);
                let name = *self.rng.pick(&["mstyle", "mpadded", "mphantom", "merror"]);
                let mut e = self.el(name, kids);
                if name == "mstyle" && self.rng.chance(0.5) {
                    e.attrs.push(("mathvariant".into(), self.rng.pick(VARIANTS).to_string()));
                }
                Node::El(e)
            }
            25 => {
                let body = self.expr(d);
                let ann = El { name: "annotation".into(), attrs: vec![("encoding".into(), "application/x-tex".into())], kids: vec![Node::Text("x^2".into())] };
                let mut kids = vec![body, Node::El(ann)];
                if self.rng.chance(0.3) {
                    let inner = self.leaf();
                    kids.push(Node::El(El { name: "annotation-xml".into(), attrs: vec![("encoding".into(), "MathML-Presentation".into())], kids: vec![inner] }));
                }
                Node::El(self.el("semantics", kids))
            }
            26 => {
                let kids: Vec<Node> = (0..self.rng.range(1, 2)).map(|_| self.expr(d)).collect();
                let mut e = self.el("maction", kids);
                e.attrs.push(("actiontype".into(), "toggle".into()));
                if self.rng.chance(0.5) {
                    e.attrs.push(("selection".into(), self.rng.pick(&["1", "2", "3"]).to_string()));
                }
                Node::El(e)
            }
            27 => {
                // an explicit intent on a container (arguments referenced by name)
                let a = self.leaf();
                let b = self.leaf();
                let (mut a, mut b) = match (a, b) {
                    (Node::El(a), Node::El(b)) => (a, b),
                    _ => unreachable!(),
                };
                a.attrs.push(("arg".into(), "p".into()));
                b.attrs.push(("arg".into(), "q".into()));
                let mut e = self.el("mrow", vec![Node::El(a), Node::El(b)]);
                e.attrs.push(("intent".into(), self.rng.pick(&["binomial($p,$q)", "$p", "foo($q)", "_($p,$q)", "power($p,$q)", ":prefix"]).to_string()));
                Node::El(e)
            }
            _ => {
                let kids = self.idiom(d);
                Node::El(self.el("mrow", kids))
            }
        }
    }
}

/// The expression of generator seed `seed` (a pure function of its arguments)
pub fn generate(seed: u64, ids: IdMode) -> String {
    let mut rng = Rng::stream(seed, "mml-gen");
    let budget = *rng.pick(&[4isize, 8, 12, 20, 35]);
    let mut g = Gen { rng, ids, next_id: 1, budget };
    let kids = if g.rng.chance(0.5) {
        g.seq(0, 1, 3)
    } else {
        vec![g.expr(0)]
    };
    let mut math = g.el("math", kids);
    if g.rng.chance(0.3) {
        math.attrs.push(("xmlns".into(), "http://www.w3.org/1998/Math/MathML".into()));
    }
    if g.rng.chance(0.2) {
        math.attrs.push(("display".into(), "block".into()));
    }
    math.to_xml()
}

pub fn id_mode(k: u8) -> IdMode {
    match k % 3 {
        0 => IdMode::None,
        1 => IdMode::Some,
        _ => IdMode::All,
    }
}

// ---------------------------------------------------------------------------------------------------
// structural reduction candidates of an expression (for the shrinker): each is strictly smaller

pub fn reductions(src: &str) -> Vec<String> {
    let Some(root) = parse(src) else { return vec![] };
    let mut out = Vec::new();
    // paths to every element below the root
    fn paths(e: &El, cur: &mut Vec<usize>, acc: &mut Vec<Vec<usize>>) {
        for (i, k) in e.kids.iter().enumerate() {
            if let Node::El(c) = k {
                cur.push(i);
                acc.push(cur.clone());
                paths(c, cur, acc);
                cur.pop();
            }
        }
    }
    let mut ps = Vec::new();
    paths(&root, &mut vec![], &mut ps);
    fn get_mut<'a>(e: &'a mut El, path: &[usize]) -> &'a mut El {
        let mut cur = e;
        for i in path {
            cur = match &mut cur.kids[*i] {
                Node::El(c) => c,
                _ => unreachable!(),
            };
        }
        cur
    }
    // biggest cuts first: paths are in document order, parents before children
    for p in &ps {
        let (parent_path, last) = p.split_at(p.len() - 1);
        // (a) remove the element
        let mut r = root.clone();
        get_mut(&mut r, parent_path).kids.remove(last[0]);
        out.push(r.to_xml());
        // (b) replace the element by each of its element children
        let mut r0 = root.clone();
        let target = get_mut(&mut r0, p).clone();
        for k in &target.kids {
            if let Node::El(c) = k {
                let mut r = root.clone();
                get_mut(&mut r, parent_path).kids[last[0]] = Node::El(c.clone());
                out.push(r.to_xml());
            }
        }
        // (c) replace a non-trivial element by a plain token
        if !target.is_token() || target.text().chars().count() > 1 {
            let mut r = root.clone();
            get_mut(&mut r, parent_path).kids[last[0]] = Node::El(El { name: "mi".into(), attrs: vec![], kids: vec![Node::Text("x".into())] });
            out.push(r.to_xml());
        }
    }
    // (d) drop attributes (all but id first, then each)
    for p in std::iter::once(&vec![]).chain(ps.iter()) {
        let mut r = root.clone();
        let e = get_mut(&mut r, p);
        if e.attrs.iter().any(|(k, _)| k != "id") {
            e.attrs.retain(|(k, _)| k == "id");
            out.push(r.to_xml());
        }
        let n_attrs = get_mut(&mut root.clone(), p).attrs.len();
        for a in 0..n_attrs {
            let mut r = root.clone();
            get_mut(&mut r, p).attrs.remove(a);
            out.push(r.to_xml());
        }
    }
    let n0 = src.len();
    out.retain(|s| s.len() < n0 || s != src);
    out.dedup();
    out
}

#[cfg(test)]
mod tests {
    use super::*;

    #[test]
    fn generator_is_deterministic_and_parses() {
        for seed in 0..300u64 {
            for k in 0..3u8 {
                let a = generate(seed, id_mode(k));
                let b = generate(seed, id_mode(k));
                assert_eq!(a, b);
                let p = parse(&a).unwrap_or_else(|| panic!("unparsable: {}", a));
                assert_eq!(p.name, "math");
                // ids are distinct
                let ids: Vec<&str> = p.elements().iter().filter_map(|e| e.attr("id")).collect();
                let mut d = ids.clone();
                d.sort();
                d.dedup();
                assert_eq!(d.len(), ids.len(), "{}", a);
            }
        }
    }

    #[test]
    fn round_trip() {
        let s = "<math><mrow id='r'><mi>x</mi><mo>&#x2212;</mo><mn>2</mn></mrow></math>";
        assert_eq!(parse(s).unwrap().to_xml(), s);
        assert_eq!(parse(s).unwrap().text(), "x\u{2212}2");
        assert!(!reductions(s).is_empty());
    }
}
