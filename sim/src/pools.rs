//! Finite, versioned argument pools for the workload generators. They are data, not a fuzzer: the properties
//! claimed here quantify over histories, schedules and fault sequences; the input space is only sampled.

pub const VALID_EXPRS: &[&str] = &[
    // 0: simplest
    "<math><mi>x</mi></math>",
    "<math><mn>1</mn><mo>+</mo><mi>x</mi></math>",
    "<math><mfrac><mn>1</mn><mi>x</mi></mfrac><mo>+</mo><msqrt><mi>y</mi></msqrt></math>",
    "<math><msup><mi>x</mi><mn>2</mn></msup><mo>+</mo><msub><mi>a</mi><mi>n</mi></msub></math>",
    "<math><mi>sin</mi><mo>&#x2061;</mo><mi>x</mi><mo>+</mo><mi>cos</mi><mi>y</mi></math>",
    // 5: capital letter, char only in unicode-full (aleph), greek
    "<math><mi>A</mi><mo>=</mo><mi>&#x2135;</mi><mo>+</mo><mi>&#x3B1;</mi></math>",
    "<math><mrow><mo>(</mo><mi>a</mi><mo>+</mo><mi>b</mi><mo>)</mo></mrow><mrow><mo>(</mo><mi>c</mi><mo>-</mo><mi>d</mi><mo>)</mo></mrow></math>",
    "<math><mn>1,234.5</mn><mo>+</mo><mn>3</mn><mo>,</mo><mn>5</mn></math>",
    "<math><mn>2</mn><mi>x</mi><mi>y</mi><mo>=</mo><mn>3</mn><mfrac><mn>1</mn><mn>2</mn></mfrac></math>",
    "<math><mroot><mrow><mi>x</mi><mo>+</mo><mn>1</mn></mrow><mn>3</mn></mroot></math>",
    // 10: tables
    "<math><mrow><mo>(</mo><mtable><mtr><mtd><mn>1</mn></mtd><mtd><mn>2</mn></mtd></mtr><mtr><mtd><mn>3</mn></mtd><mtd><mn>4</mn></mtd></mtr></mtable><mo>)</mo></mrow></math>",
    "<math><mtable><mtr><mtd><mi>x</mi><mo>+</mo><mi>y</mi></mtd><mtd><mo>=</mo></mtd><mtd><mn>5</mn></mtd></mtr><mtr><mtd><mi>x</mi><mo>-</mo><mi>y</mi></mtd><mtd><mo>=</mo></mtd><mtd><mn>1</mn></mtd></mtr></mtable></math>",
    "<math><munderover><mo>&#x2211;</mo><mrow><mi>i</mi><mo>=</mo><mn>1</mn></mrow><mi>n</mi></munderover><msup><mi>i</mi><mn>2</mn></msup></math>",
    "<math><msubsup><mo>&#x222B;</mo><mn>0</mn><mn>1</mn></msubsup><mi>f</mi><mo>(</mo><mi>x</mi><mo>)</mo><mi>d</mi><mi>x</mi></math>",
    "<math><mmultiscripts><mi>C</mi><mn>2</mn><none/><mprescripts/><mn>6</mn><mn>14</mn></mmultiscripts></math>",
    // 15: chemistry, text
    "<math><msub><mi mathvariant='normal'>H</mi><mn>2</mn></msub><mi mathvariant='normal'>O</mi></math>",
    "<math><mi>x</mi><mo>=</mo><mn>1</mn><mtext>&#xA0;if&#xA0;</mtext><mi>y</mi><mo>&gt;</mo><mn>0</mn></math>",
    "<math><mover><mi>x</mi><mo>&#xAF;</mo></mover><mo>+</mo><munder><mi>lim</mi><mrow><mi>n</mi><mo>&#x2192;</mo><mi>&#x221E;</mi></mrow></munder><msub><mi>a</mi><mi>n</mi></msub></math>",
    "<math><mo>|</mo><mi>x</mi><mo>|</mo><mo>&#x2264;</mo><mn>3.5</mn></math>",
    "<math><mi mathvariant='bold'>A</mi><mo>&#xD7;</mo><mi mathvariant='double-struck'>R</mi></math>",
    // 20: author ids: some, all, duplicated
    "<math><mi id='a1'>x</mi><mo>+</mo><mi>y</mi></math>",
    "<math id='root'><mrow id='r'><mi id='a'>x</mi><mo id='p'>+</mo><mi id='b'>y</mi></mrow></math>",
    "<math><mi id='a'>x</mi><mo>+</mo><mi id='a'>y</mi></math>",
    "<math><mfrac id='f'><mrow><mi>a</mi><mo>+</mo><mi>b</mi></mrow><mrow id='den'><mi>c</mi><mo>+</mo><mi>d</mi></mrow></mfrac></math>",
    // 24: deprecated/wrapper elements that canonicalization removes
    "<math><mstyle displaystyle='true'><mfenced><mi>a</mi><mi>b</mi></mfenced></mstyle><mspace width='1em'/><mphantom><mi>z</mi></mphantom><mi>q</mi></math>",
    "<math><semantics><mrow><mi>e</mi><mo>=</mo><mi>m</mi><msup><mi>c</mi><mn>2</mn></msup></mrow><annotation encoding='TeX'>e=mc^2</annotation></semantics></math>",
    "<math><menclose notation='box'><mi>x</mi><mo>+</mo><mn>1</mn></menclose></math>",
    // 27: invisible operators heavy (retry loop in navigation)
    "<math><mn>2</mn><mo>&#x2062;</mo><mi>a</mi><mo>&#x2062;</mo><mi>b</mi><mo>&#x2062;</mo><mi>c</mi></math>",
    "<math><mi>f</mi><mo>&#x2061;</mo><mrow><mo>(</mo><mi>x</mi><mo>&#x2063;</mo><mi>y</mi><mo>)</mo></mrow></math>",
    "<math><mn>3</mn><mo>&#x2064;</mo><mfrac><mn>1</mn><mn>4</mn></mfrac></math>",
    // 30: long word token (character mode offsets), numbers with blocks
    "<math><mi>speed</mi><mo>=</mo><mfrac><mi>distance</mi><mi>time</mi></mfrac></math>",
    "<math><mn>1 000 000</mn><mo>+</mo><mn>3,14</mn></math>",
    "<math><msup><mi>e</mi><mrow><mo>-</mo><mfrac><msup><mi>x</mi><mn>2</mn></msup><mn>2</mn></mfrac></mrow></msup></math>",
    "<math><mi>x</mi><mo>&#x2208;</mo><mo>{</mo><mn>1</mn><mo>,</mo><mn>2</mn><mo>,</mo><mn>3</mn><mo>}</mo></math>",
    "<math><mover><mrow><mi>A</mi><mi>B</mi></mrow><mo>&#x2192;</mo></mover><mo>&#x22A5;</mo><mover><mrow><mi>C</mi><mi>D</mi></mrow><mo>&#x2194;</mo></mover></math>",
    // 35: intent, entities, namespace prefix
    "<math><mrow intent='binomial($n,$k)'><mo>(</mo><mfrac linethickness='0'><mi arg='n'>n</mi><mi arg='k'>k</mi></mfrac><mo>)</mo></mrow></math>",
    "<math><mi>&alpha;</mi><mo>&le;</mo><mi>&beta;</mi><mo>&InvisibleTimes;</mo><mi>&gamma;</mi></math>",
    "<m:math xmlns:m='http://www.w3.org/1998/Math/MathML'><m:mi>x</m:mi><m:mo>+</m:mo><m:mn>1</m:mn></m:math>",
    "<math display='block'><mrow><mi>x</mi><mo>=</mo><mfrac><mrow><mo>-</mo><mi>b</mi><mo>&#xB1;</mo><msqrt><msup><mi>b</mi><mn>2</mn></msup><mo>-</mo><mn>4</mn><mi>a</mi><mi>c</mi></msqrt></mrow><mrow><mn>2</mn><mi>a</mi></mrow></mfrac></mrow></math>",
    "<math><mn>5</mn><mo>!</mo><mo>+</mo><mo>-</mo><mn>2</mn><mo>%</mo></math>",
    // 40: empty-ish but legal
    "<math><mrow></mrow></math>",
    "<math><mi></mi></math>",
    "<math><mtext>only text here</mtext></math>",
    "<math><mfrac><mrow/><mn>2</mn></mfrac></math>",
    // 44: elementary math / mlongdiv-like tables, mlabeledtr
    "<math><mtable><mlabeledtr><mtd><mtext>(1)</mtext></mtd><mtd><mi>a</mi><mo>=</mo><mi>b</mi></mtd></mlabeledtr></mtable></math>",
    "<math><mi>a</mi><mo>&#x2260;</mo><mi>b</mi><mo>&#x21D2;</mo><mi>c</mi><mo>&#x2248;</mo><mi>d</mi></math>",
    "<math><msup><mrow><mo>(</mo><mi>x</mi><mo>+</mo><mi>y</mi><mo>)</mo></mrow><mi>n</mi></msup><mo>=</mo><munderover><mo>&#x2211;</mo><mrow><mi>k</mi><mo>=</mo><mn>0</mn></mrow><mi>n</mi></munderover><mrow><mo>(</mo><mfrac linethickness='0'><mi>n</mi><mi>k</mi></mfrac><mo>)</mo></mrow><msup><mi>x</mi><mi>k</mi></msup><msup><mi>y</mi><mrow><mi>n</mi><mo>-</mo><mi>k</mi></mrow></msup></math>",
    "<math><mi>x</mi><mo>'</mo><mo>'</mo><mo>+</mo><msup><mi>y</mi><mo>&#x2032;</mo></msup></math>",
    // 48: author ids on a token that is lifted into a new mmultiscripts (empty base of the following script)
    "<math><mi id='x'>X</mi><msup id='s'><mrow/><mn id='two'>2</mn></msup></math>",
    "<math><mrow id='r'><msub id='sb'><mrow/><mn id='pre'>2</mn></msub><mi id='h'>H</mi><msup><mrow/><mo id='pl'>+</mo></msup></mrow></math>",
    // 50: multi-letter capital identifiers (capital-word indicators in braille), alone and in context
    "<math><mi>AB</mi></math>",
    "<math><mi>ABC</mi><mo>=</mo><mi>DE</mi><mo>+</mo><mi mathvariant='bold'>XY</mi></math>",
    "<math><mtext>AB</mtext><mo>&#x2225;</mo><mtext>CD</mtext></math>",
    // 53: tables with three rows (two row separators in the braille codes that mark row ends)
    "<math><mo>(</mo><mtable><mtr><mtd><mn>1</mn></mtd></mtr><mtr><mtd><mn>2</mn></mtd></mtr><mtr><mtd><mn>3</mn></mtd></mtr></mtable><mo>)</mo></math>",
    "<math><mi>M</mi><mo>=</mo><mrow><mo>[</mo><mtable><mtr><mtd><mi>a</mi></mtd><mtd><mn>0</mn></mtd></mtr><mtr><mtd><mi>m</mi></mtd><mtd><mi>b</mi></mtd></mtr><mtr><mtd><mn>12</mn></mtd><mtd><mi>c</mi></mtd></mtr></mtable><mo>]</mo></mrow></math>",
    // 55: Roman numerals (upper and lower case, as numbers and as identifiers)
    "<math><mn>XIV</mn><mo>+</mo><mn>VII</mn><mo>=</mo><mn>XXI</mn></math>",
    "<math><mi>x</mi><mo>=</mo><mn>iv</mn><mo>+</mo><mi mathvariant='normal'>XII</mi><mo>+</mo><mn>IX</mn></math>",
    // 57: primes grouped in their own mrow; a mixed-number look-alike followed by a group
    "<math><mrow><mi>f</mi><mrow><mo>'</mo><mo>'</mo></mrow><mo>=</mo><mn>2</mn></mrow></math>",
    "<math><mn>3</mn><mn>1</mn><mo>/</mo><mrow><mi>a</mi><mo>+</mo><mi>b</mi></mrow></math>",
    // 59: chemical bonds
    "<math><mrow><mi>H</mi><mo>&#x2212;</mo><mi>O</mi><mi>H</mi></mrow></math>",
    "<math><mi>C</mi><msub><mi>H</mi><mn>2</mn></msub><mo>=</mo><mi>C</mi><msub><mi>H</mi><mn>2</mn></msub><mo>+</mo><mi>H</mi><mo>:</mo><mi>Cl</mi></math>",
    // 61: ordinals and number words (powers and root indexes above three, fractions spoken with ordinals, a large exponent)
    "<math><msup><mi>x</mi><mn>4</mn></msup><mo>+</mo><mroot><mi>y</mi><mn>5</mn></mroot><mo>+</mo><mfrac><mn>3</mn><mn>7</mn></mfrac></math>",
    "<math><msup><mi>a</mi><mn>23</mn></msup><mo>&#x2212;</mo><mroot><mn>2</mn><mn>12</mn></mroot><mo>+</mo><mfrac><mn>1</mn><mn>100</mn></mfrac><mo>+</mo><msup><mi>z</mi><mn>101</mn></msup></math>",
    // 63: numbers with more digits than a machine integer holds, in the places where number words are made
    "<math><mfrac><mn>1</mn><mn>100000000000000000000000</mn></mfrac><mo>+</mo><msup><mi>x</mi><mn>340282366920938463463374607431768211456</mn></msup><mo>+</mo><mroot><mi>y</mi><mn>99999999999999999999999999</mn></mroot><mo>+</mo><mn>0.00000000000000000000000000000000000001</mn></math>",
    // 64 (REGRESSION_FROM): minimised expressions of repaired defects
    "<math><mo>|</mo><mo>)</mo></math>",
    "<math><mi>a</mi><mo>+</mo><mfenced open='|'/></math>",
    "<math><mmultiscripts><mi>x</mi></mmultiscripts><mo>+</mo><mmultiscripts><mi>y</mi><none/><none/></mmultiscripts></math>",
    "<math><mmultiscripts><mrow/></mmultiscripts></math>",
    "<math><mi>a</mi><mmultiscripts><mtext> </mtext></mmultiscripts></math>",
    "<math><mmultiscripts><mtable><mtd><mi>i</mi><mi>n</mi><mi>x</mi><mi>a</mi></mtd></mtable></mmultiscripts><mi>H</mi></math>",
    "<math><mi mathvariant='sans-serif'>XIV</mi><mo>+</mo><mn mathvariant='monospace'>XIV</mn></math>",
    "<math><msubsup><mrow intent='_($p,$q)'><mrow/></mrow><mn>&#xBD;</mn><mn>&#xBD;</mn></msubsup></math>",
    "<math><msub><mi></mi><mrow intent='power($p,$q)'><mrow/></mrow></msub></math>",
    "<math><msqrt><mi>f</mi><mrow intent='binomial($p,$q)'><mrow/></mrow></msqrt></math>",
    "<math><msub><mrow><mn>2</mn><mn>10</mn><mn>-0.5</mn><mi>x</mi></mrow><mi>x</mi></msub></math>",
    "<math><mfrac><mstyle><mo>/</mo><mrow/></mstyle><mspace/></mfrac></math>",
    "<math><msubsup id='s'><mi id='x1'>log</mi><mn id='n'>30</mn><mtext>&#xA0;</mtext></msubsup></math>",
    "<math><mrow><mi>&#x3B1;</mi><mn id='n'>-2</mn></mrow><mo>+</mo><mn id='m'>&#x2212;3</mn></math>",
    "<math><mfenced><mi>k</mi><none/></mfenced></math>",
    "<math><mfenced><mi>z</mi><mrow intent='_($p,$q)'><mo>&#x221A;</mo></mrow></mfenced></math>",
    "<math><mi>x</mi><mover><mrow/><mo>_</mo></mover><mo>]</mo></math>",
    "<math><mrow><mi>H</mi><mn>1</mn><mn>234</mn><mo>.</mo><mn>5</mn><mo>)</mo><mi>x</mi></mrow></math>",
    "<math><mn>14</mn><mn>3</mn><mrow><mn id='n'>5</mn><mo>)</mo></mrow><mi>x</mi></math>",
    "<math><mrow><mo>&#x2062;</mo><mrow intent='$p'><mo>*</mo></mrow></mrow></math>",
    "<math><mn mathvariant=\"bold\">43</mn><mn mathvariant=\"bold\">56</mn></math>",
    "<math><mrow id='r'><mspace/><mn id='n'>2.5</mn></mrow><mo>+</mo><mpadded id='p'><mspace/><mi id='d'>dx</mi></mpadded></math>",
    "<math><msub><mrow/><mi>C</mi></msub><msup><msqrt/><mi id='a'>a</mi></msup><mi>&#x3B2;</mi></math>",
    "<math><mi>&#x1D63C;</mi><mo>,</mo><mi>&#x1D655;</mi></math>",
    "<math><mn>2</mn><mi intent=':silent'>x</mi></math>",
    "<math><mn mathvariant='sans-serif'>2</mn><mo>+</mo><mn>&#x1D7E4;</mn></math>",
    "<math><mi>&#x1D63C;</mi><mo>+</mo><mi>&#x1D655;</mi><mo>=</mo><mn>2</mn><mo>&#x225F;</mo><mn>3</mn><mo>&#x22BB;</mo><mi>y</mi></math>",
    "<math><menclose notation=' rightarrow downarrow uparrow '><mi>x</mi></menclose><mo>+</mo><menclose notation='uparrow'/></math>",
    // what regional variants and per-language definitions override: the three kinds of brackets; unit names given as text
    "<math><mi>x</mi><mo>(</mo><mi>y</mi><mo>+</mo><mn>1</mn><mo>)</mo><mo>+</mo><mo>[</mo><mi>z</mi><mo>]</mo><mo>&#x2212;</mo><mo>{</mo><mi>w</mi><mo>}</mo></math>",
    "<math><mn>2</mn><mtext>tsk</mtext><mo>+</mo><mn>2</mn><mtext>cup</mtext><mo>+</mo><mn>3</mn><mtext>kuppi</mtext><mo>+</mo><mn>5</mn><mi mathvariant='normal' intent=':unit'>km</mi><mo>+</mo><mn>1</mn><mtext>B</mtext></math>",
];

/// indexes (from the end of VALID_EXPRS) of the two expressions above
pub fn expr_brackets() -> usize {
    VALID_EXPRS.len() - 2
}
pub fn expr_units() -> usize {
    VALID_EXPRS.len() - 1
}

/// First index of the regression section of VALID_EXPRS: the minimised expressions of defects that were found on the
/// unchanged tree (by generated expressions, other seeds, the thorough tiers) and repaired. They stay in the pool so that
/// the quick tier of seed 1 exercises them by design, not by luck (see scripts/sensitivity.sh fixes).
pub const REGRESSION_FROM: usize = 64;

/// braille codes with the non-default values of their own preferences (each is a different path through the clean-up code)
pub const BRAILLE_VARIANTS: &[(&str, &[(&str, &str)])] = &[
    ("UEB", &[("UEB_START_MODE", "Grade1")]),
    ("UEB", &[("UEB_UseSpacesAroundAllOperators", "true"), ("UseSpacesAroundAllOperators", "true")]),
    ("UEB", &[("UEB_START_MODE", "Grade1"), ("UEB_UseSpacesAroundAllOperators", "true"), ("UEB_DoubleStruck", "\u{2818}\u{283c}"), ("UEB_GreekVariant", "\u{2838}")]),
    ("Vietnam", &[("Vietnam_UseDropNumbers", "true")]),
    ("Vietnam", &[("UEB_START_MODE", "Grade1"), ("Vietnam_GreekVariant", "\u{2828}")]),
    ("LaTeX", &[("LaTeX_UseShortName", "true")]),
    ("Nemeth", &[("UseSpacesAroundAllOperators", "true")]),
    ("CMU", &[("UseSpacesAroundAllOperators", "true"), ("UEB_START_MODE", "Grade1")]),
    ("Swedish", &[("UEB_START_MODE", "Grade1")]),
];

/// documented values of the ClearSpeak preferences (comments of Rules/prefs.yaml); "Auto" is the default of all but one
pub const CLEARSPEAK_VALUES: &[(&str, &[&str])] = &[
    ("ClearSpeak_CapitalLetters", &["SayCaps"]),
    ("ClearSpeak_AbsoluteValue", &["AbsEnd", "Cardinality", "Determinant"]),
    ("ClearSpeak_Fractions", &["Ordinal", "Over", "FracOver", "General", "EndFrac", "GeneralEndFrac", "OverEndFrac", "Per"]),
    ("ClearSpeak_Exponents", &["Ordinal", "OrdinalPower", "AfterPower"]),
    ("ClearSpeak_Roots", &["PosNegSqRoot", "RootEnd", "PosNegSqRootEnd"]),
    ("ClearSpeak_Functions", &["None"]),
    ("ClearSpeak_Trig", &["TrigInverse", "ArcTrig"]),
    ("ClearSpeak_Log", &["LnAsNaturalLog"]),
    ("ClearSpeak_ImpliedTimes", &["MoreImpliedTimes", "None"]),
    ("ClearSpeak_Paren", &["Speak", "SpeakNestingLevel", "Silent", "CoordPoint", "Interval"]),
    ("ClearSpeak_Matrix", &["SpeakColNum", "SilentColNum", "EndMatrix", "Vector", "EndVector", "Combinatorics"]),
    ("ClearSpeak_MultiLineLabel", &["Case", "Constraint", "Equation", "Line", "None", "Row", "Step"]),
    ("ClearSpeak_MultiLineOverview", &["None"]),
    ("ClearSpeak_MultiLinePausesBetweenColumns", &["Long"]),
    ("ClearSpeak_Sets", &["woAll", "SilentBracket"]),
    ("ClearSpeak_MultSymbolX", &["By", "Cross"]),
    ("ClearSpeak_MultSymbolDot", &["Dot"]),
    ("ClearSpeak_TriangleSymbol", &["Delta"]),
    ("ClearSpeak_Ellipses", &["AndSoOn"]),
    ("ClearSpeak_VerticalLine", &["SuchThat", "Divides", "Given"]),
    ("ClearSpeak_SetMemberSymbol", &["Belongs", "Element", "Member"]),
    ("ClearSpeak_Prime", &["Angle", "Length"]),
    ("ClearSpeak_CombinationPermutation", &["ChoosePermute"]),
    ("ClearSpeak_Bar", &["Bar", "Conjugate", "Mean"]),
    ("MathSpeak", &["Brief", "SuperBrief"]),
    ("Chemistry", &["Off", "AsCompound"]),
    ("Impairment", &["LearningDisability", "LowVision"]),
];

/// Index of an expression with a character that only the *full* Unicode tables contain
pub const EXPR_NEEDS_FULL_UNICODE: usize = 5;
/// Index of the expression with a separator-bearing number (known finding C10 stale separators)
pub const EXPR_SEPARATOR_NUMBERS: &[usize] = &[7, 31];
/// Index of the expression with duplicated author ids
pub const EXPR_DUP_AUTHOR_IDS: usize = 22;

pub const INVALID_EXPRS: &[&str] = &[
    "",
    "not xml at all",
    "<math><mi>x</mi>",
    "<math><mi>x</mo></math>",
    "<html><body>hi</body></html>",
    "<math><mi>&nosuchentity;</mi></math>",
    "<math></math>",
    "<math/>",
    "<mi>x</mi>",
    "<math><foo>x</foo></math>",
    "<math><mfrac><mi>x</mi></mfrac></math>",
    "<math><msup><mi>x</mi></msup></math>",
    "<math><mi>x</mi></math><math><mi>y</mi></math>",
    "<?xml version='1.0'?><!DOCTYPE math><math><mi>x</mi></math>",
    "<math><mtable><mi>x</mi></mtable></math>",
    "<math><mtr><mtd><mi>x</mi></mtd></mtr></math>",
    "<math><mmultiscripts><mi>x</mi><mn>1</mn></mmultiscripts></math>",
    "<math>text directly in math</math>",
    "<math><mi>x</mi><!-- comment --><?pi?></math>",
    "<math><mrow><mrow><mrow><mrow><mrow><mrow><mrow><mrow><mrow><mrow><mrow><mrow><mrow><mrow><mrow><mrow><mi>x</mi></mrow></mrow></mrow></mrow></mrow></mrow></mrow></mrow></mrow></mrow></mrow></mrow></mrow></mrow></mrow></mrow></math>",
    "<math><mi intent='((('>x</mi></math>",
    "<math><mn>1</mn><mo>+</mo></math>",
    "<math xmlns='http://www.w3.org/1998/Math/MathML'><mi>x</mi><mi>\u{0}</mi></math>",
    "<math><msqrt/></math>",
    "<math><mi mathvariant='no-such-variant'>x</mi><mo>&#xFFFF;</mo></math>",
];

pub const LANGUAGES: &[&str] = &["en", "en-gb", "es", "fi", "id", "sv", "vi", "zh-tw", "zz", "zz-aa", "en-us", "de", "es-mx", "zh"];
pub const SPEECH_STYLES: &[&str] = &["ClearSpeak", "SimpleSpeak"];
pub const BRAILLE_CODES: &[&str] = &["Nemeth", "UEB", "CMU", "Vietnam", "LaTeX", "ASCIIMath", "Swedish", "ASCIIMath-fi"];
pub const VERBOSITY: &[&str] = &["Terse", "Medium", "Verbose"];
pub const TTS: &[&str] = &["None", "SSML", "SAPI5", "none", "ssml"];
pub const CHECK_RULE_FILES: &[&str] = &["None", "Prefs", "All"];
pub const NAV_MODES: &[&str] = &["Enhanced", "Simple", "Character"];
pub const NAV_VERBOSITY: &[&str] = &["Terse", "Medium", "Verbose"];
pub const HIGHLIGHT: &[&str] = &["Off", "FirstChar", "EndPoints", "All"];

pub const FLOAT_PREFS: &[&str] = &["Pitch", "Rate", "Volume", "CapitalLetters_Pitch", "MathRate", "PauseFactor"];

pub const NAV_MOVE: &[&str] = &[
    "MovePrevious", "MoveNext", "MoveStart", "MoveEnd", "MoveLineStart", "MoveLineEnd", "MoveCellPrevious", "MoveCellNext",
    "MoveCellUp", "MoveCellDown", "MoveColumnStart", "MoveColumnEnd", "ZoomIn", "ZoomOut", "ZoomOutAll", "ZoomInAll",
];
pub const NAV_READ: &[&str] = &[
    "ReadPrevious", "ReadNext", "ReadCurrent", "ReadCellCurrent", "ReadStart", "ReadEnd", "ReadLineStart", "ReadLineEnd",
    "DescribePrevious", "DescribeNext", "DescribeCurrent", "WhereAmI", "WhereAmIAll",
];
pub const NAV_TOGGLE: &[&str] = &["ToggleZoomLockUp", "ToggleZoomLockDown", "ToggleSpeakMode"];
pub const NAV_BAD: &[&str] = &["", "NoSuchCommand", "movenext", "MoveTo10", "SetPlacemarker", "Read-1", "ZoomIn "];

pub fn nav_all_commands() -> Vec<String> {
    let mut v: Vec<String> = Vec::new();
    for c in NAV_MOVE.iter().chain(NAV_READ.iter()).chain(NAV_TOGGLE.iter()) {
        v.push(c.to_string());
    }
    v.push("MoveLastLocation".to_string());
    v.push("Exit".to_string());
    for i in 0..10 {
        v.push(format!("MoveTo{}", i));
        v.push(format!("Read{}", i));
        v.push(format!("Describe{}", i));
        v.push(format!("SetPlacemarker{}", i));
    }
    v
}

/// key codes MathCAT knows plus some it does not
pub const KEYS: &[usize] = &[0x25, 0x27, 0x26, 0x28, 0x0D, 0x20, 0x24, 0x23, 0x08, 0x1B, 0x30, 0x31, 0x35, 0x39, 0x41, 0x5A, 0, 9999];

/// MathML expressions extracted from the repository's own test files (tests/**/*.rs), one per line; a versioned data
/// file (regenerate with scripts/extract_corpus.py). Still a finite pool: the input space is sampled, not explored.
pub fn corpus() -> &'static Vec<&'static str> {
    static CORPUS: std::sync::OnceLock<Vec<&'static str>> = std::sync::OnceLock::new();
    CORPUS.get_or_init(|| include_str!("../pools/corpus.txt").lines().filter(|l| !l.trim().is_empty()).collect())
}
