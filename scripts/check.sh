#!/bin/bash
# scripts/check.sh <PROPERTY> <quick|thorough>   |   scripts/check.sh replay <file>   |   scripts/check.sh selftest [n]
# exit 0: property held on everything explored; 1: VIOLATION line printed; 2: harness error (never an alarm)
set -u
DIR="$(cd "$(dirname "$0")/.." && pwd)"
export VERIF_DIR="$DIR"
export VERIF_SEED="${VERIF_SEED:-1}"
"$DIR/scripts/build.sh" || exit 2
BIN="$DIR/target/release/mcsim"
if [ "${MCSIM_PROFILE:-release}" = "dbg" ]; then BIN="$DIR/target/dbg/mcsim"; fi
case "${1:-}" in
  replay)   exec "$BIN" replay "$2" ;;
  selftest) exec "$BIN" selftest "${2:-120}" ;;
  run-trace) shift; exec "$BIN" run-trace "$@" ;;
  show)     shift; exec "$BIN" show "$@" ;;
  *)        exec "$BIN" check "$1" "${2:-quick}" ;;
esac
