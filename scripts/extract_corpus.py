#!/usr/bin/env python3
"""Extracts MathML string literals from /repo/tests/**/*.rs into /verif/sim/pools/corpus.txt (one expression per line,
de-duplicated, at most 1500, deterministic sample). The corpus is versioned data: rerun only deliberately."""
import re,glob,hashlib,random
exprs=[]
for f in sorted(glob.glob('/repo/tests/**/*.rs',recursive=True)):
    s=open(f,encoding='utf-8',errors='replace').read()
    for m in re.finditer(r'r#"(.*?)"#',s,re.S):
        if '<math' in m.group(1): exprs.append(m.group(1))
    for m in re.finditer(r'(?<![r#])"((?:[^"\\]|\\.)*)"',s,re.S):
        t=m.group(1)
        if '<math' in t and '</math>' in t:
            t=re.sub(r'\\\n\s*','',t)
            t=t.replace('\\"','"').replace("\\'","'").replace('\\n','\n').replace('\\t','\t')
            t=re.sub(r'\\u\{([0-9a-fA-F]+)\}',lambda mm: chr(int(mm.group(1),16)),t)
            exprs.append(t.replace('\\\\','\\'))
out=[];seen=set()
for t in exprs:
    t=' '.join(t.split())
    if not (20<=len(t)<=6000): continue
    h=hashlib.md5(t.encode()).hexdigest()
    if h in seen: continue
    seen.add(h); out.append(t)
random.seed(1)
if len(out)>1500: out=sorted(random.sample(out,1500))
open('/verif/sim/pools/corpus.txt','w',encoding='utf-8').write('\n'.join(out)+'\n')
print(len(out))
