#!/bin/bash
# scripts/process_seeded.sh <worktree> <seeded-id> <property> "<needs to manifest>" [other checks...]
# confirm a sub-agent's change, store it under seeded/, run the quick check(s) against it, record the result
set -u
WT="$1"; ID="$2"; P="$3"; NEEDS="$4"; shift 4
DIR="$(cd "$(dirname "$0")/.." && pwd)"
"$DIR/scripts/confirm_seeded.sh" "$WT" "$ID" "$P" > /tmp/confirm_$ID.out 2>&1
grep -A2 "baseline_tests_not\|\"demo_with\|\"demo_without" /tmp/confirm_$ID.out | grep "baseline\|result" | cut -c1-150
cp "$WT/mutant/README.md" "$DIR/seeded/$ID/AGENT_README.md" 2>/dev/null
python3 - "$ID" "$(git -C /repo rev-parse --short HEAD)" "$P" "$@" <<'PY'
import json,sys
p=f'/verif/seeded/{sys.argv[1]}/meta.json'
m=json.load(open(p)); m.setdefault('applies_to_repo_commit',sys.argv[2]); m['run_checks']=sorted(set([sys.argv[3]]+sys.argv[4:])); json.dump(m,open(p,'w'),indent=1,ensure_ascii=False)
PY
# the checks run against the change applied to the CURRENT /repo HEAD (the sub-agent's worktree may be older than later fixes)
export SENS_DIR="${SENS_DIR:-/tmp/sens2}"
"$DIR/scripts/sensitivity.sh" seeded "$ID" > /tmp/sens_$ID.out 2>&1
for C in "$P" "$@"; do
  F="$SENS_DIR/$ID-$C.out"; [ -f "$F" ] || F="$SENS_DIR/$ID(ported)-$C.out"
  if [ ! -f "$F" ]; then echo "no result for $ID $C (patch does not apply to HEAD? see /tmp/sens_$ID.out)"; continue; fi
  "$DIR/scripts/record_seeded.py" "$ID" "$C" "$F" "$NEEDS"
  grep -m2 "class=" "$F" | cut -c1-200
done
