#!/bin/bash
# scripts/confirm_seeded.sh <worktree> <seeded-id> <property>
# Confirms a change written by a sub-agent in its scratch worktree (change applied, demo in tests/demo_mutant.rs):
#  1. the suite's result with the change equals the baseline (same set of passing tests), the demo file moved away;
#  2. the demonstration fails with the change and passes without it.
# Then stores patch.diff, the demonstration and meta.json under /verif/seeded/<seeded-id>/.
set -u
WT="$1"; ID="$2"; PROP="$3"
DIR="$(cd "$(dirname "$0")/.." && pwd)"
OUT="$DIR/seeded/$ID"; mkdir -p "$OUT"
cd "$WT" || exit 2
git diff -- src Rules > "$OUT/patch.diff"
[ -s "$OUT/patch.diff" ] || { echo "no change in src"; exit 2; }
cp tests/demo_mutant.rs "$OUT/demo_mutant.rs" || exit 2
mv tests/demo_mutant.rs /tmp/demo_$ID.rs
cargo nextest run --workspace --no-fail-fast --test-threads 8 --offline > /tmp/suite_$ID.out 2>&1
SUMMARY=$(grep -E "Summary" /tmp/suite_$ID.out | sed 's/^ *//')
python3 - "$ID" > /tmp/suite_$ID.cmp <<'PY'
import json,re,sys
base=set(json.load(open('/root/.vp/BASELINE.json'))['stable_pass'])
passed=set()
for l in open(f'/tmp/suite_{sys.argv[1]}.out'):
    m=re.match(r'\s*(PASS|FAIL)\s+\[.*?\]\s+\(\s*\d+/\d+\)\s+(\S+)\s+(\S+)',l)
    if m and m.group(1)=='PASS': passed.add(m.group(2)+'::'+m.group(3))
missing=sorted(base-passed)
print(len(missing), ' '.join(missing[:5]))
PY
MISSING=$(cat /tmp/suite_$ID.cmp)
mv /tmp/demo_$ID.rs tests/demo_mutant.rs
cargo test --offline --test demo_mutant > /tmp/demo_with_$ID.out 2>&1; WITH_RC=$?
WITH=$(grep -E "^test result" /tmp/demo_with_$ID.out | head -1)
# (no git stash: the stash is shared by all worktrees of a repository)
git apply -R "$OUT/patch.diff" || exit 2
cargo test --offline --test demo_mutant > /tmp/demo_without_$ID.out 2>&1; WITHOUT_RC=$?
WITHOUT=$(grep -E "^test result" /tmp/demo_without_$ID.out | head -1)
git apply "$OUT/patch.diff" || exit 2
python3 - "$OUT/meta.json" "$ID" "$PROP" "$SUMMARY" "$MISSING" "$WITH_RC" "$WITH" "$WITHOUT_RC" "$WITHOUT" <<'PY'
import json,sys
out,idd,prop,summary,missing,wrc,w,worc,wo=sys.argv[1:]
try: old=json.load(open(out))
except Exception: old={}
old.update({"id":idd,"property":prop,"author":"independent sub-agent (saw only the property text and its own worktree)",
 "confirmed":{"suite_with_change":summary,"baseline_tests_not_passing_with_change":missing,
   "demo_with_change":{"exit":int(wrc),"result":w},"demo_without_change":{"exit":int(worc),"result":wo},
   "commands":["cargo nextest run --workspace --no-fail-fast --test-threads 8 --offline (demo file moved away)","cargo test --offline --test demo_mutant (with the change)","git apply -R patch.diff; cargo test --offline --test demo_mutant; git apply patch.diff"]}})
old.setdefault("run_checks",[prop])
json.dump(old,open(out,'w'),indent=1)
print(json.dumps(old["confirmed"],indent=1))
PY
