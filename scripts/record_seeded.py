#!/usr/bin/env python3
"""record_seeded.py <seeded-id> <property> <check output file> [needs...]: store what a check reported for a seeded change"""
import json,sys,re,subprocess
idd,prop,outf=sys.argv[1:4]
p=f'/verif/seeded/{idd}/meta.json'
m=json.load(open(p))
text=open(outf).read()
viol=re.findall(r'^VIOLATION property=(\S+) replay=\S+\n\s+class=(\S+) sig=(.*)$',text,re.M)
runs=re.search(r'^runs=.*$',text,re.M)
d=m.setdefault('checks_run',{})
d[prop]={'detected':bool(viol),'violations':[{'class':c,'sig':s} for _,c,s in viol[:4]],'summary':runs.group(0)[:200] if runs else '',
 'verif_commit':subprocess.run(['git','-C','/verif','rev-parse','--short','HEAD'],capture_output=True,text=True).stdout.strip()}
if len(sys.argv)>4: m['needs_to_manifest']=' '.join(sys.argv[4:])
json.dump(m,open(p,'w'),indent=1,ensure_ascii=False)
print(idd,prop,'DETECTED' if viol else 'MISSED')
