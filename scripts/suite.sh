#!/bin/bash
# scripts/suite.sh [repo]  -- runs the repository's pinned test suite (guard off) and compares with /root/.vp/BASELINE.json:
# prints the summary line and the number of baseline stable-pass tests that did not pass (must be 0). Exit 0 iff 0.
REPO="${1:-/repo}"
cd "$REPO" || exit 2
OUT=$(mktemp)
cargo nextest run --workspace --no-fail-fast --test-threads 8 --offline > "$OUT" 2>&1
grep -E "Summary" "$OUT" | sed 's/^ *//'
python3 - "$OUT" <<'PY'
import json,re,sys
base=set(json.load(open('/root/.vp/BASELINE.json'))['stable_pass'])
passed=set()
for l in open(sys.argv[1]):
    m=re.match(r'\s*(PASS|FAIL)\s+\[.*?\]\s+\(\s*\d+/\d+\)\s+(\S+)\s+(\S+)',l)
    if m and m.group(1)=='PASS': passed.add(m.group(2)+'::'+m.group(3))
missing=sorted(base-passed)
print("baseline stable-pass tests not passing:", len(missing), ' '.join(missing[:5]))
sys.exit(0 if not missing else 1)
PY
RC=$?
rm -f "$OUT"
exit $RC
