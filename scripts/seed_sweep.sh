#!/bin/bash
# scripts/seed_sweep.sh <scratch_dir> <tier> <seed_from> <seed_to> [PROPERTY...]
# Exploration aid (not a registered command): builds the engine ONCE in <scratch_dir> against /repo's working tree and
# runs the given tier of the given checks (default: all seven) under every VERIF_SEED in the range; evidence and replays
# go to <scratch_dir>/verif, one output file per (seed, property) to <scratch_dir>/out. Prints one line per run.
# Anything found here is re-run with the registered command (VERIF_SEED=<n> scripts/check.sh <ID> quick) before triage.
set -u
SCRATCH="$1"; TIER="$2"; FROM="$3"; TO="$4"; shift 4
PROPS="${*:-C08 C09 C10 C11 C12 C14 C20}"
DIR="$(cd "$(dirname "$0")/.." && pwd)"
REPO="${MCSIM_REPO:-/repo}"
mkdir -p "$SCRATCH/sim" "$SCRATCH/verif" "$SCRATCH/target" "$SCRATCH/out"
rsync -a --delete --exclude target "$DIR/sim/" "$SCRATCH/sim/"
sed -i "s#mathcat = { path = \"/repo\"#mathcat = { path = \"$REPO\"#" "$SCRATCH/sim/Cargo.toml"
sed -i "s#target-dir = \"/verif/target\"#target-dir = \"$SCRATCH/target\"#" "$SCRATCH/sim/.cargo/config.toml"
cp "$DIR/known_findings.json" "$SCRATCH/verif/"
cd "$SCRATCH/sim" || exit 2
if ! CARGO_NET_OFFLINE=true cargo build --release --offline > "$SCRATCH/build.log" 2>&1; then
  echo "HARNESS-ERROR: build failed"; grep -E "^error" -A 10 "$SCRATCH/build.log" | head -40; exit 2
fi
export VERIF_DIR="$SCRATCH/verif" MCSIM_REPO="$REPO"
for s in $(seq "$FROM" "$TO"); do
  for p in $PROPS; do
    VERIF_SEED=$s "$SCRATCH/target/release/mcsim" check "$p" "$TIER" > "$SCRATCH/out/$p-$s.out" 2>&1; rc=$?
    v=$(grep -m1 -A1 '^VIOLATION' "$SCRATCH/out/$p-$s.out" | tr '\n' ' ' | cut -c1-220)
    echo "seed=$s $p exit=$rc $v"
  done
done
