#!/bin/bash
# Build the engine against /repo's current working tree with the hooks enabled (incremental; offline).
set -u
cd "$(dirname "$0")/../sim" || exit 2
export CARGO_NET_OFFLINE=true
PROFILE_FLAG="--release"
if [ "${MCSIM_PROFILE:-release}" = "dbg" ]; then PROFILE_FLAG="--profile dbg"; fi
LOG=$(mktemp /verif/target/build.XXXXXX.log 2>/dev/null || mktemp)
mkdir -p /verif/target
if ! cargo build $PROFILE_FLAG --offline >"$LOG" 2>&1; then
  echo "HARNESS-ERROR: engine build failed (see below)" >&2
  grep -E "^(error|warning: unused)" -A 12 "$LOG" | head -80 >&2
  rm -f "$LOG"
  exit 2
fi
rm -f "$LOG"
exit 0
