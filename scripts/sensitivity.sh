#!/bin/bash
# scripts/sensitivity.sh fixes|seeded [name...]
# Proves sensitivity both ways without touching /repo:
#   fixes : for every "fix:" commit of /repo, revert it in a scratch worktree and run the quick checks of the properties
#           recorded for it in known_findings.json (status=fixed): at least one of them must exit 1 (the defect returns).
#   seeded: for every /verif/seeded/<id>/patch.diff, apply it in the scratch worktree and run the quick checks of the
#           properties listed in its meta.json ("detected_by" or "property").
# Results: /verif/seeded/SENSITIVITY.md (appended table).  Not one of the registered commands.
set -u
DIR="$(cd "$(dirname "$0")/.." && pwd)"
MODE="${1:-fixes}"; shift || true
SENS_DIR="${SENS_DIR:-/tmp/sens}"   # a second instance (e.g. process_seeded.sh while a full pass runs) uses another directory
WT=$SENS_DIR/repo; SCRATCH=$SENS_DIR/scratch
mkdir -p $SENS_DIR
if [ ! -d "$WT" ]; then git -C /repo worktree add -q --detach "$WT" HEAD || exit 2; fi
cp /repo/Cargo.lock "$WT/" 2>/dev/null
OUT="$DIR/seeded/SENSITIVITY.md"; mkdir -p "$DIR/seeded"
echo "" >> "$OUT"; echo "## run $(date -u +%FT%TZ) mode=$MODE repo=$(git -C /repo rev-parse --short HEAD) verif=$(git -C $DIR rev-parse --short HEAD)" >> "$OUT"
echo "| change | property | exit | first violation |" >> "$OUT"; echo "|---|---|---|---|" >> "$OUT"
run_props() { # name props...
  local name="$1"; shift
  for p in "$@"; do
    "$DIR/scripts/with_repo.sh" "$WT" "$SCRATCH" "$p" quick > "$SENS_DIR/$name-$p.out" 2>&1; local rc=$?
    local v; v=$(grep -m1 -A1 '^VIOLATION' "$SENS_DIR/$name-$p.out" | tail -1 | cut -c1-160 | iconv -f utf-8 -t utf-8 -c | tr '|' '/')
    echo "| $name | $p | $rc | $v |" >> "$OUT"
    echo "$name $p exit=$rc $v"
    # SENS_FIRST_ONLY=1: one detecting check per change is enough (saves hours on a full pass)
    if [ "${SENS_FIRST_ONLY:-0}" = "1" ] && [ "$rc" = "1" ]; then break; fi
  done
}
if [ "$MODE" = "fixes" ]; then
  python3 - "$DIR/known_findings.json" "$@" > $SENS_DIR/fixlist.txt <<'PY'
import json,sys
f=json.load(open(sys.argv[1])); only=set(sys.argv[2:])
for e in f['findings']:
    if e['status']=='fixed' and (not only or e['commit'] in only):
        print(e['commit'], ' '.join(e['properties']))
PY
  while read -r c props; do
    git -C "$WT" reset -q --hard "$(git -C /repo rev-parse HEAD)"; git -C "$WT" clean -qfd -e Cargo.lock -e target
    if ! git -C "$WT" revert --no-commit "$c" >$SENS_DIR/revert.log 2>&1; then echo "| revert-$c | - | conflict | $(head -1 $SENS_DIR/revert.log) |" >> "$OUT"; git -C "$WT" revert --abort 2>/dev/null; git -C "$WT" reset -q --hard; continue; fi
    run_props "revert-$c" $props
    git -C "$WT" reset -q --hard
  done < $SENS_DIR/fixlist.txt
else
  for d in "$DIR"/seeded/*/; do
    n=$(basename "$d"); [ -f "$d/patch.diff" ] || continue
    if [ $# -gt 0 ]; then case " $* " in *" $n "*) ;; *) continue;; esac; fi
    git -C "$WT" reset -q --hard "$(git -C /repo rev-parse HEAD)"; git -C "$WT" clean -qfd -e Cargo.lock -e target
    if ! git -C "$WT" apply "$d/patch.diff" 2>$SENS_DIR/apply.log; then
      # the code the change was written against has been repaired since: use the port of the same slip to the current code
      if [ -f "$d/patch_ported.diff" ] && git -C "$WT" apply "$d/patch_ported.diff" 2>>$SENS_DIR/apply.log; then n="$n(ported)";
      else echo "| $n | - | patch-does-not-apply | $(head -1 $SENS_DIR/apply.log) |" >> "$OUT"; continue; fi
    fi
    props=$(python3 -c "import json,sys; m=json.load(open('${d}meta.json')); print(' '.join(m.get('run_checks') or [m['property']]))")
    run_props "$n" $props
    git -C "$WT" reset -q --hard
  done
fi
git -C "$WT" reset -q --hard
echo "done; see $OUT"
