#!/usr/bin/env python3
"""Rewrites the generated tables of DESIGN.md (between <!-- X-BEGIN --> / <!-- X-END --> markers) from known_findings.json."""
import json,re
f=json.load(open('/verif/known_findings.json'))
fixed=[e for e in f['findings'] if e['status']=='fixed']
known=[e for e in f['findings'] if e['status']=='known']
t="| commit | properties | what failed (minimal history, place) |\n|---|---|---|\n"
for e in fixed: t+=f"| {e['commit']} | {', '.join(e['properties'])} | {e['what'].replace('|','/')} |\n"
k="| id | property | class | what / why not repaired |\n|---|---|---|---|\n"
for e in known: k+=f"| {e['id']} | {', '.join(e['properties'])} | {e['class']} | {e['what'].replace('|','/')} |\n"
p='/verif/DESIGN.md'; s=open(p).read()
for name,tab in (('FIXES',t),('KNOWN',k)):
    s=re.sub(rf'<!-- {name}-BEGIN -->.*?<!-- {name}-END -->',f'<!-- {name}-BEGIN -->\n{tab}<!-- {name}-END -->',s,flags=re.S)
open(p,'w').write(s)
print(len(fixed),'fixed',len(known),'known')
