#!/bin/bash
# scripts/with_repo.sh <repo_path> <scratch_dir> <PROPERTY> [quick|thorough]
# Runs one check against ANOTHER copy of the repository (a scratch worktree with a change applied) without touching
# /repo, /verif/evidence or /verif/replays: the engine sources are copied to <scratch_dir>/sim with the mathcat path
# rewritten, built into <scratch_dir>/target, and evidence/replays are written under <scratch_dir>/verif.
# Used by scripts/sensitivity.sh; not one of the registered commands.
set -u
REPO="$1"; SCRATCH="$2"; PROP="$3"; TIER="${4:-quick}"
DIR="$(cd "$(dirname "$0")/.." && pwd)"
mkdir -p "$SCRATCH/sim" "$SCRATCH/verif" "$SCRATCH/target"
rsync -a --delete --exclude target "$DIR/sim/" "$SCRATCH/sim/"
sed -i "s#mathcat = { path = \"/repo\"#mathcat = { path = \"$REPO\"#" "$SCRATCH/sim/Cargo.toml"
sed -i "s#target-dir = \"/verif/target\"#target-dir = \"$SCRATCH/target\"#" "$SCRATCH/sim/.cargo/config.toml"
cp "$DIR/known_findings.json" "$SCRATCH/verif/"
cd "$SCRATCH/sim" || exit 2
# always rebuild the library under test: a cached artifact of another state of the same path has been seen to be
# reused after patches were applied and reverted in quick succession (stale build => wrong verdict)
CARGO_NET_OFFLINE=true cargo clean --release -p mathcat --offline > /dev/null 2>&1
if ! CARGO_NET_OFFLINE=true cargo build --release --offline > "$SCRATCH/build.log" 2>&1; then
  echo "HARNESS-ERROR: build failed"; grep -E "^error" -A 10 "$SCRATCH/build.log" | head -40; exit 2
fi
export VERIF_DIR="$SCRATCH/verif" MCSIM_REPO="$REPO" VERIF_SEED="${VERIF_SEED:-1}"
exec "$SCRATCH/target/release/mcsim" check "$PROP" "$TIER"
