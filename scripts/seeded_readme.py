#!/usr/bin/env python3
"""Regenerates /verif/seeded/README.md from the meta.json files and the latest rows of SENSITIVITY.md."""
import json,glob,re
latest={}
for line in open('/verif/seeded/SENSITIVITY.md',encoding='utf-8',errors='replace'):
    m=re.match(r'\| (\S+?)(\(ported\))? \| (C\d\d) \| (\S+) \| (.*) \|$',line)
    if m: latest[(m.group(1),m.group(3))]=(m.group(4),m.group(5).strip(),bool(m.group(2)))
rows=[]
for d in sorted(glob.glob('/verif/seeded/*/meta.json')):
    m=json.load(open(d))
    checks=set(m.get('run_checks',[m['property']]))|set(m.get('checks_run',{}).keys())
    for p in sorted(checks):
        if (m['id'],p) in latest:
            rc,v,ported=latest[(m['id'],p)]
            res={'1':'detected','0':'missed'}.get(rc,rc)
            cls=re.search(r'class=(\S+)',v); sig=re.search(r'sig=(.*)',v)
            rows.append((m['id']+(' (ported)' if ported else ''),m['property'],p,res,cls.group(1) if cls else '-',(sig.group(1) if sig else '-')[:100],m.get('needs_to_manifest','see AGENT_README.md')[:260]))
        elif p in m.get('checks_run',{}):
            r=m['checks_run'][p]; v=r['violations'][0] if r['violations'] else {'class':'-','sig':'-'}
            rows.append((m['id'],m['property'],p,('detected' if r['detected'] else 'missed')+' (first run)',v['class'],v['sig'][:100],m.get('needs_to_manifest','see AGENT_README.md')[:260]))
s="""# Seeded changes

Deliberately broken trees used to test the checks. Each directory holds `patch.diff` (applies to /repo at the commit
named in `meta.json: applies_to_repo_commit`; where the code was repaired afterwards, `patch_ported.diff` is the same
slip on the current code), the author's demonstration (`demo_mutant.rs`, a cargo integration test that passes without
the change and fails with it), `meta.json` (property, what the change needs in order to manifest, what was run to
confirm it, what the checks reported) and the author's own `AGENT_README.md`.

The changes were written by independent sub-agents that were given only the text of one property, general rules and a
scratch git worktree (nothing from /verif). In round 7 (ids listed with a 'round 7' note in meta.json) they were also told, in
general terms, what the checks already do and were asked to find a slip the checks would still miss; in rounds 8 and 9
they were given the titles of the earlier changes for their property (to pick another mechanism) and, in round 9, a
theme (error paths, other threads, navigation rules, preference files, lazy loading layers, position arithmetic). Each was kept only after `scripts/confirm_seeded.sh` confirmed, in that
worktree: the crate compiles, the suite's result equals the baseline (all 3249 baseline tests still pass), the
demonstration fails with the change and passes without it. `scripts/with_repo.sh` then ran the registered quick
check(s) against the changed worktree (never against /repo). To repeat everything: `scripts/sensitivity.sh seeded`.

The table shows the latest run of each (change, check) pair from SENSITIVITY.md.

| id | written against | check run | result | violation class | signature | needs, to manifest |
|---|---|---|---|---|---|---|
"""
for r in rows: s+="| "+" | ".join(x.replace('|','/') for x in r)+" |\n"
s+="""
History of misses and what was strengthened:

- `C08-failed-unzip-remembered-as-done` was first missed by every check (the session ended up holding Language=zh with
  English fallback files, and a fresh session given Language=zh *rejects* it and also speaks English, so outputs were
  equal). Added: (C12) a rejected set_preference repeated immediately must be rejected again; (C08, C10) the
  preference values a session holds must be accepted by the fresh reference session (`state-not-reproducible`);
  (C08) directed scenarios that repeat every failing call twice before the recovery check. Now detected by C08 and C12.
- `C14-separators-computed-into-old-table` was first missed by C14: the probe expression had no numbers and the
  preference snapshot was not part of a probe round. Added to every probe round: a second part on an expression with
  separator-bearing numbers (set_mathml, speech, braille; compared with the pre-fault round and with its own fresh
  session) and the full preference snapshot. Now detected.
- Rounds 8 and 9: `C08-failed-definitions-read-marked-current` was first missed by C08 (its random histories broke
  English files only; C14 caught it) -> directed switch-into-a-broken-file scenarios in C08.
  `C20-routing-restore-drops-api-set-mark` was first missed by C20 (delayed effect, invisible to before/after
  snapshots; C12 and C08 caught it) -> run-level control "same history without the queries" and prefs.yaml touches in
  C20. `C12-braille-position-error-leaves-temp-highlight-pref` was first missed by C12, C20 and C14 (needs a failure
  inside a routing probe after the up-front reload succeeded) -> directed scenarios with the lazily read braille
  unicode-full.yaml broken in C12 and C20. `C10-shared-parsed-prefs-carry-api-values` (process-wide cache) is reported
  by the solo run in a pristine child process added in that round.
- The first C14 run against `C14-nested-include-times-dropped` reported a false class first (an injected read error
  on the always-failing probe for `xx.zip`); injections are now only placed on reads that would succeed.
- A stale-build problem was found while testing these changes (cargo reused an artifact of the same path after a
  patch had been reverted and re-applied): `scripts/with_repo.sh` now always rebuilds the library under test.

Reverting each `fix:` commit of /repo is the second family of seeded changes (`scripts/sensitivity.sh fixes`); those
runs are also in SENSITIVITY.md.
"""
open('/verif/seeded/README.md','w').write(s)
print(len(rows),"rows")
